package main

// C19 — parsing and rendering share no mutable state: EFF-G, EFF-R, EFF-X, EFF-U, DET.

import (
	"fmt"
	"go/constant"
	"go/token"
	"go/types"
	"sort"
	"strings"

	"golang.org/x/tools/go/ssa"
)

func init() { props["C19"] = checkC19 }

// parsePathEntries are the exported entry points that construct or complete a tree (they mutate what they build or
// what the caller hands them to fill: parser state, the tree under construction, the reference map being extracted into).
var parsePathEntries = map[string]bool{
	"Parse": true, "NewBlockParser": true, "(*BlockParser).NextBlock": true, "(*InlineParser).Rewrite": true, "(ReferenceMap).Extract": true,
}

func readPathEntries(p *Program) []*ssa.Function {
	var out []*ssa.Function
	for _, f := range p.Funcs {
		if isExportedFunc(f) && !parsePathEntries[shortFuncName(f)] {
			out = append(out, f)
		}
	}
	return out
}

var denyPkgs = []string{"time", "math/rand", "crypto/rand", "os", "runtime", "sync", "syscall", "net", "log", "flag", "expvar", "reflect", "plugin", "testing", "unsafe", "io/ioutil", "context"}

func deniedPkg(path string) bool {
	for _, d := range denyPkgs {
		if path == d || strings.HasPrefix(path, d+"/") {
			return true
		}
	}
	return false
}

var allowedNonStd = map[string]bool{
	"golang.org/x/net/html/atom": true, "golang.org/x/text/cases": true, "golang.org/x/net/html": true,
	"golang.org/x/text/unicode/norm": true, "golang.org/x/text/transform": true, "golang.org/x/text/language": true,
}

func isStdPkg(path string) bool {
	first := path
	if i := strings.Index(path, "/"); i >= 0 {
		first = path[:i]
	}
	return !strings.Contains(first, ".")
}

func checkC19(c *Ctx) {
	effRules(c)
	e := newEFF(c.P)
	ruleEFFG(c, e)
	ruleEFFR(c, e, readPathEntries(c.P), "EFF-R")
	ruleEFFX(c, e)
	ruleEFFU(c)
	ruleDET(c, e)
	c.Assume("A1: Go type and memory safety apart from the audited unsafe conversions in node.go")
	c.Assume("A2: the external callees listed under lists.external_callees are goroutine-safe as documented (no unsynchronised hidden state)")
	c.Assume("A3: user callbacks (FilterTag, Pre/Post, custom child functions, io.Writer, io.Reader, ReferenceMatcher) are the caller's responsibility")
	c.Assume("A4: a BlockParser / InlineParser.ReferenceMatcher is not shared between goroutines (not part of the property)")
	c.MinCount("EFF-G", 50)
	c.MinCount("EFF-R", 20)
}

func effRules(c *Ctx) {
	c.Rule("EFF-G", "Outside package initialisers no instruction of the module writes memory whose origins include a package-level variable or its contents (one obligation per function: all its write sites classified).")
	c.Rule("EFF-R", "Every write instruction (store, map update, append, copy, delete, writing external callee) in a function reachable from the read-path entry points (all exported functions and methods except the tree-constructing ones) targets only call-owned memory: allocations of the current call tree, objects of scratch types (unexported struct types none of whose allocation sites escapes), or the documented output parameter.")
	c.Rule("EFF-X", "Calls leaving the module go only to standard-library packages not on the deny list (ambient/global state, scheduling, nondeterminism) or to the audited x/net/html/atom and x/text/cases; memory that is not call-owned is passed only to callees known to read their arguments.")
	c.Rule("EFF-U", "Package unsafe is used only for tagged node pointers: a *Block or *Inline is made untyped only when it is stored into Node.ptr next to a constant type tag (one distinct tag per pointee type), and Node.ptr is read back as *T only where the tag of that same Node is T's tag (exact, by BSET path-conditioning on the tag). No unsafe pointer arithmetic.")
	c.Rule("DET", "No go statement, select, channel operation, pointer-to-integer conversion or %p formatting in module code; no range over a map whose body has an order-observable effect.")
	c.Rule("SCRATCH", "A struct type is scratch iff it is unexported, every allocation site of it is non-escaping (never stored into non-local memory, passed to external code, returned from the exported API, sent or spawned), and no non-scratch module type can hold it in a field.")
}

func ruleEFFG(c *Ctx, e *effEngine) {
	nWrites := 0
	onceInit := map[*ssa.Function]bool{}
	for _, fn := range c.P.Funcs {
		eachInstr(fn, func(in ssa.Instruction) {
			if ci, ok := in.(ssa.CallInstruction); ok {
				if f := ci.Common().StaticCallee(); f != nil && f.String() == "(*sync.Once).Do" && len(ci.Common().Args) == 2 {
					switch fv := ci.Common().Args[1].(type) {
					case *ssa.MakeClosure:
						if ff, ok := fv.Fn.(*ssa.Function); ok {
							onceInit[ff] = true
						}
					case *ssa.Function:
						onceInit[fv] = true
					}
				}
			}
		})
	}
	for _, fn := range c.P.Funcs {
		if fn.Name() == "init" || strings.HasPrefix(fn.Name(), "init#") || onceInit[fn] {
			continue
		}
		var bad []string
		var pos token.Pos
		ws := e.writesOf(fn)
		for _, w := range ws {
			nWrites++
			for k := range e.classifyWrite(w) {
				if strings.HasPrefix(k, "global:") {
					bad = append(bad, fmt.Sprintf("%s to %s at %s", w.kind, k, c.P.Pos(w.instr.Pos())))
					pos = w.instr.Pos()
				}
			}
		}
		if len(bad) > 0 {
			c.Viol("EFF-G", shortFuncName(fn), pos, "writes package-level state: "+strings.Join(bad, "; "))
		} else {
			c.OK("EFF-G", shortFuncName(fn), fn.Pos(), fmt.Sprintf("%d write sites, none targets package-level state", len(ws)))
		}
	}
	c.Analysed["write_sites_module"] = nWrites
	// package-level variables and who may write them
	var globals []string
	for _, sp := range []*ssa.Package{c.P.CMs, c.P.FMTs} {
		for name, m := range sp.Members {
			if g, ok := m.(*ssa.Global); ok && !strings.HasPrefix(name, "init$") {
				globals = append(globals, sp.Pkg.Name()+"."+g.Name())
			}
		}
	}
	sort.Strings(globals)
	c.Lists["package_level_variables"] = globals
}

func ownedClass(k string) bool {
	return k == "local" || strings.HasPrefix(k, "scratch:") || strings.HasPrefix(k, "out:")
}

func ruleEFFR(c *Ctx, e *effEngine, entries []*ssa.Function, rule string) {
	reach := e.reachableFrom(entries)
	var names []string
	nFn, nW := 0, 0
	var fns []*ssa.Function
	for f := range reach {
		if f.Blocks != nil && (c.P.InModule(f) || (f.Synthetic != "" && f.Pkg == nil)) {
			fns = append(fns, f)
		}
	}
	sort.Slice(fns, func(i, j int) bool { return fns[i].String() < fns[j].String() })
	for _, fn := range fns {
		if !c.P.InModule(fn) {
			continue
		}
		nFn++
		names = append(names, shortFuncName(fn))
		var bad []string
		var pos token.Pos
		ws := e.writesOf(fn)
		for _, w := range ws {
			nW++
			cls := e.classifyWrite(w)
			for k := range cls {
				if !ownedClass(k) {
					bad = append(bad, fmt.Sprintf("%s at %s targets %s", w.kind, c.P.Pos(w.instr.Pos()), k))
					pos = w.instr.Pos()
				}
			}
		}
		sort.Strings(bad)
		if len(bad) > 0 {
			c.Viol(rule, shortFuncName(fn), pos, "write to memory that is not call-owned: "+strings.Join(bad, "; "))
		} else {
			c.OK(rule, shortFuncName(fn), fn.Pos(), fmt.Sprintf("%d write sites, all call-owned", len(ws)))
		}
	}
	var en []string
	for _, f := range entries {
		en = append(en, shortFuncName(f))
	}
	sort.Strings(en)
	c.Lists["read_path_entries"] = en
	c.Lists["read_path_functions"] = names
	c.Analysed["read_path_functions"] = nFn
	c.Analysed["read_path_write_sites"] = nW
	var sc []string
	for n, ok := range e.scratch {
		if ok {
			sc = append(sc, n.Obj().Name())
		} else {
			sc = append(sc, "(not scratch) "+n.Obj().Name()+": "+e.scratchWhy[n])
		}
	}
	sort.Strings(sc)
	c.Lists["scratch_types"] = sc
}

// argument classes for external read-only callees
func extReadsOnly(name, pkg string) bool {
	switch pkg {
	case "bytes", "strings", "html", "unicode", "errors", "math", "fmt", "golang.org/x/net/html/atom", "golang.org/x/text/cases", "unicode/utf16":
		return true
	case "unicode/utf8":
		return name != "unicode/utf8.EncodeRune" && name != "unicode/utf8.AppendRune"
	case "strconv":
		return !strings.HasPrefix(name, "strconv.Append")
	}
	return false
}

func ruleEFFX(c *Ctx, e *effEngine) {
	ext := map[string]int{}
	dyn := map[string]int{}
	for _, fn := range c.P.Funcs {
		eachInstr(fn, func(in ssa.Instruction) {
			ci, ok := in.(ssa.CallInstruction)
			if !ok {
				return
			}
			com := ci.Common()
			if _, isB := com.Value.(*ssa.Builtin); isB {
				return
			}
			if com.IsInvoke() {
				// interface method on a user-supplied or module object
				recvPkg := ""
				if n := namedOf(com.Value.Type()); n != nil && n.Obj().Pkg() != nil {
					recvPkg = n.Obj().Pkg().Path()
				}
				if recvPkg != "" && deniedPkg(recvPkg) {
					c.Viol("EFF-X", shortFuncName(fn)+"→"+calleeName(com), in.Pos(), "interface call into denied package "+recvPkg)
				}
				dyn[calleeName(com)]++
				return
			}
			f := com.StaticCallee()
			if f == nil {
				dyn["func value "+com.Value.Type().String()]++
				return
			}
			if c.P.InModule(f) || f.Pkg == nil {
				return
			}
			if f.Name() == "init" && f.Synthetic != "" {
				return // package initialiser chain
			}
			pkg := f.Pkg.Pkg.Path()
			name := f.String()
			ext[name]++
			key := shortFuncName(fn) + "→" + name
			if ok, why := modelledSync(name, in); ok {
				c.OK("EFF-X", key, in.Pos(), why)
				return
			} else if why != "" {
				c.Undecided("EFF-X", key, in.Pos(), why)
				return
			}
			switch {
			case deniedPkg(pkg):
				c.Viol("EFF-X", key, in.Pos(), "call into package "+pkg+" (ambient or global mutable state, scheduling, or nondeterminism)")
				return
			case !isStdPkg(pkg) && !allowedNonStd[pkg]:
				c.Viol("EFF-X", key, in.Pos(), "call into unaudited non-standard package "+pkg)
				return
			}
			// argument discipline: non-owned mutable memory only to read-only callees
			if extReadsOnly(name, pkg) {
				c.OK("EFF-X", key, in.Pos(), "stateless callee that only reads its arguments")
				return
			}
			written := map[int]bool{}
			for _, ai := range extWritesArgs(f) {
				written[ai] = true
			}
			var bad []string
			for ai, a := range com.Args {
				if !mutableRef(a.Type()) {
					continue
				}
				cls := e.classify(a)
				for k := range cls {
					if !ownedClass(k) {
						if written[ai] {
							bad = append(bad, fmt.Sprintf("argument %d (%s) is written by the callee", ai, k))
						} else if _, known := knownExtReadArgs[name]; !known {
							bad = append(bad, fmt.Sprintf("argument %d (%s) passed to a callee without a read-only entry", ai, k))
						}
					}
				}
			}
			if len(bad) > 0 {
				c.Viol("EFF-X", key, in.Pos(), strings.Join(bad, "; "))
			} else {
				c.OK("EFF-X", key, in.Pos(), "stateless callee; only call-owned memory passed as writable arguments")
			}
		})
	}
	var names []string
	for k, n := range ext {
		names = append(names, fmt.Sprintf("%s ×%d", k, n))
	}
	sort.Strings(names)
	c.Lists["external_callees"] = names
	var dn []string
	for k, n := range dyn {
		dn = append(dn, fmt.Sprintf("%s ×%d", k, n))
	}
	sort.Strings(dn)
	c.Lists["dynamic_and_interface_calls_A3"] = dn
}

// modelledSync recognises the three sync idioms that are race-free by construction (DESIGN.md §2 EFF-X).
func modelledSync(name string, in ssa.Instruction) (bool, string) {
	switch {
	case name == "(*sync.Pool).Get":
		return true, "sync.Pool.Get: the value is exclusively owned until Put"
	case name == "(*sync.Pool).Put":
		if _, isDefer := in.(*ssa.Defer); isDefer {
			return true, "sync.Pool.Put deferred to function exit: no use after Put"
		}
		return false, "sync.Pool.Put outside a defer: use-after-Put cannot be excluded structurally"
	case name == "(*sync.Once).Do":
		return true, "sync.Once.Do: the function runs once, before any reader proceeds"
	case strings.HasPrefix(name, "sync/atomic.") || strings.HasPrefix(name, "(*sync/atomic."):
		return true, "atomic operation"
	case strings.HasPrefix(name, "(*sync.") || strings.HasPrefix(name, "sync."):
		return false, "lock-protected shared state needs a lock-set analysis that is not implemented; not guessed"
	}
	return false, ""
}

var knownExtReadArgs = map[string]bool{
	"(*strings.Builder).Write": true, "(*strings.Builder).WriteString": true, "(*strings.Builder).WriteByte": true, "(*strings.Builder).WriteRune": true,
	"(*strings.Builder).Grow": true, "(*strings.Builder).String": true, "(*strings.Builder).Len": true, "(*strings.Builder).Reset": true,
}

func mutableRef(t types.Type) bool {
	switch u := t.Underlying().(type) {
	case *types.Pointer, *types.Slice, *types.Map:
		return true
	case *types.Basic:
		return u.Kind() == types.UnsafePointer
	}
	return false
}

func isUnsafePtr(t types.Type) bool {
	b, ok := t.Underlying().(*types.Basic)
	return ok && b.Kind() == types.UnsafePointer
}

// nodeFieldOf: v reads field f of a Node value; returns the base (the struct value, its spill slot or its address) and f.
func nodeFieldOf(v ssa.Value) (base ssa.Value, field string, ok bool) {
	switch x := v.(type) {
	case *ssa.Field:
		if typeName(x.X.Type()) == "Node" {
			_, f := fieldInfo(x)
			return x.X, f, true
		}
	case *ssa.UnOp:
		if x.Op == token.MUL {
			if fa, isFA := x.X.(*ssa.FieldAddr); isFA {
				if tn, f, _ := fieldAddrInfo(fa); tn == "Node" {
					return fa.X, f, true
				}
			}
		}
	}
	return nil, "", false
}

// sameNodeBase: two bases denote the same Node value (identical value, or spill slot of the same parameter).
func sameNodeBase(a, b ssa.Value) bool {
	if a == b {
		return true
	}
	norm := func(v ssa.Value) ssa.Value {
		if al, ok := v.(*ssa.Alloc); ok {
			for _, r := range refsOf(al) {
				if st, ok := r.(*ssa.Store); ok && st.Addr == ssa.Value(al) {
					if _, isP := st.Val.(*ssa.Parameter); isP {
						return st.Val
					}
				}
			}
		}
		return v
	}
	return norm(a) == norm(b)
}

func ruleEFFU(c *Ctx) {
	n := 0
	// pass 1: typed pointer → unsafe.Pointer conversions must be stored into Node.ptr next to a constant tag
	tagOf := map[string]int64{}
	type conv struct {
		in   ssa.Instruction
		fn   *ssa.Function
		x    ssa.Value
		from types.Type
		to   types.Type
	}
	var toUnsafe, fromUnsafe []conv
	for _, fn := range c.P.Funcs {
		eachInstr(fn, func(in ssa.Instruction) {
			var x ssa.Value
			var to types.Type
			switch y := in.(type) {
			case *ssa.Convert:
				x, to = y.X, y.Type()
			case *ssa.ChangeType:
				x, to = y.X, y.Type()
			default:
				return
			}
			from := x.Type()
			switch {
			case isUnsafePtr(to) && !isUnsafePtr(from):
				toUnsafe = append(toUnsafe, conv{in, fn, x, from, to})
			case isUnsafePtr(from) && !isUnsafePtr(to):
				fromUnsafe = append(fromUnsafe, conv{in, fn, x, from, to})
			}
		})
	}
	pointee := func(t types.Type) string {
		if pt, ok := t.Underlying().(*types.Pointer); ok {
			if nn := namedOf(pt.Elem()); nn != nil {
				return nn.Obj().Name()
			}
		}
		return ""
	}
	for _, cv := range toUnsafe {
		n++
		key := shortFuncName(cv.fn) + ":to-unsafe"
		tn := pointee(cv.from)
		if tn != "Block" && tn != "Inline" {
			c.Viol("EFF-U", key, cv.in.Pos(), fmt.Sprintf("unsafe conversion of %s: only *Block and *Inline may be turned into untyped node pointers", cv.from))
			continue
		}
		// stored into Node.ptr of some base; sibling store of a constant into Node.typ of the same base
		var tag int64 = -1
		okStore := false
		for _, r := range refsOf(cv.in.(ssa.Value)) {
			st, isSt := r.(*ssa.Store)
			if !isSt {
				continue
			}
			fa, isFA := st.Addr.(*ssa.FieldAddr)
			if !isFA {
				continue
			}
			if tnm, f, _ := fieldAddrInfo(fa); tnm != "Node" || f != "ptr" {
				continue
			}
			okStore = true
			for _, r2 := range refsOf(fa.X) {
				fa2, isFA2 := r2.(*ssa.FieldAddr)
				if !isFA2 {
					continue
				}
				if _, f2, _ := fieldAddrInfo(fa2); f2 != "typ" {
					continue
				}
				for _, r3 := range refsOf(fa2) {
					if st2, ok := r3.(*ssa.Store); ok {
						if k, isC := constInt(st2.Val); isC {
							tag = k
						}
					}
				}
			}
		}
		if !okStore || tag < 0 {
			c.Viol("EFF-U", key, cv.in.Pos(), "a typed node pointer is made untyped without being stored in a Node together with a constant type tag")
			continue
		}
		if prev, seen := tagOf[tn]; seen && prev != tag {
			c.Viol("EFF-U", key, cv.in.Pos(), fmt.Sprintf("*%s is tagged %d here and %d elsewhere", tn, tag, prev))
			continue
		}
		for other, k := range tagOf {
			if other != tn && k == tag {
				c.Viol("EFF-U", key, cv.in.Pos(), fmt.Sprintf("*%s and *%s share the type tag %d", tn, other, tag))
			}
		}
		tagOf[tn] = tag
		c.OK("EFF-U", key, cv.in.Pos(), fmt.Sprintf("*%s stored with tag %d", tn, tag))
	}
	// pass 2: unsafe.Pointer → typed pointer only from Node.ptr and only where the tag of that very Node is the pointee's tag
	bs := newBSET(c.P)
	for _, cv := range fromUnsafe {
		n++
		key := shortFuncName(cv.fn) + ":from-unsafe"
		tn := pointee(cv.to)
		want, known := tagOf[tn]
		base, f, isNodeField := nodeFieldOf(cv.x)
		if !known || !isNodeField || f != "ptr" {
			c.Viol("EFF-U", key, cv.in.Pos(), fmt.Sprintf("unsafe conversion unsafe.Pointer → %s that does not read the pointer of a tagged Node", cv.to))
			continue
		}
		isTag := func(v ssa.Value) bool {
			b2, f2, ok := nodeFieldOf(v)
			return ok && f2 == "typ" && sameNodeBase(b2, base)
		}
		dom := make([]int64, 256)
		for i := range dom {
			dom[i] = int64(i)
		}
		reach := bs.reachUnderSym(cv.fn, isTag, dom)
		var bad []int64
		for d := range reach[cv.in.Block()] {
			if d != want {
				bad = append(bad, d)
			}
		}
		sort.Slice(bad, func(i, j int) bool { return bad[i] < bad[j] })
		c.Check(len(bad) == 0 && reach[cv.in.Block()][want], "EFF-U", key, cv.in.Pos(),
			fmt.Sprintf("the node pointer is read as *%s where the Node's tag is not known to be %d (reachable for %d other tag values): the type-safety assumption of the analysis would not hold", tn, want, len(bad)))
	}
	// any other use of package unsafe (Sizeof etc. are constants; Add/Slice/String are builtins in SSA)
	for _, fn := range c.P.Funcs {
		eachInstr(fn, func(in ssa.Instruction) {
			if ci, ok := in.(ssa.CallInstruction); ok {
				if b, ok := ci.Common().Value.(*ssa.Builtin); ok && (b.Name() == "Add" || b.Name() == "Slice" || b.Name() == "String" || b.Name() == "SliceData" || b.Name() == "StringData") {
					c.Viol("EFF-U", shortFuncName(fn)+":unsafe."+b.Name(), in.Pos(), "unsafe pointer arithmetic voids the type-safety assumption of the analysis")
				}
			}
		})
	}
	c.Analysed["unsafe_conversions"] = n
}

func ruleDET(c *Ctx, e *effEngine) {
	for _, fn := range c.P.Funcs {
		key := shortFuncName(fn)
		eachInstr(fn, func(in ssa.Instruction) {
			switch x := in.(type) {
			case *ssa.Go:
				c.Viol("DET", key+":go", in.Pos(), "go statement in library code")
			case *ssa.Select:
				c.Viol("DET", key+":select", in.Pos(), "select statement")
			case *ssa.Send:
				c.Viol("DET", key+":send", in.Pos(), "channel send")
			case *ssa.MakeChan:
				c.Viol("DET", key+":makechan", in.Pos(), "channel creation")
			case *ssa.UnOp:
				if x.Op == token.ARROW {
					c.Viol("DET", key+":recv", in.Pos(), "channel receive")
				}
			case *ssa.Convert:
				if isUnsafePtr(x.X.Type()) {
					if b, ok := x.Type().Underlying().(*types.Basic); ok && b.Info()&types.IsInteger != 0 {
						c.Viol("DET", key+":ptr2int", in.Pos(), "pointer converted to integer (address-dependent value)")
					}
				}
			case *ssa.Range:
				if _, isMap := x.X.Type().Underlying().(*types.Map); isMap {
					ok, why := mapRangeOrderFree(e, x)
					c.Check(ok, "DET", key+":maprange", in.Pos(), "range over map: "+why)
				}
			}
			// %p in constant format strings
			if ci, ok := in.(ssa.CallInstruction); ok {
				for _, a := range ci.Common().Args {
					if k, ok := a.(*ssa.Const); ok && k.Value != nil && k.Value.Kind() == constant.String && strings.Contains(constant.StringVal(k.Value), "%p") {
						c.Viol("DET", key+":%p", in.Pos(), "formatting a pointer value")
					}
				}
			}
		})
		c.OK("DET", key, fn.Pos(), "no goroutine, channel, select, pointer-to-integer or order-observable map iteration")
	}
}

// mapRangeOrderFree: the loop body of a map range is order-free when it performs no write to non-local memory,
// no append, no call other than read-only ones, and returns only constants.
func mapRangeOrderFree(e *effEngine, r *ssa.Range) (bool, string) {
	// body = blocks dominated by the block of the Next instruction's "ok" true edge; approximated by the loop containing r's Next
	var next *ssa.Next
	for _, ref := range refsOf(r) {
		if n, ok := ref.(*ssa.Next); ok {
			next = n
		}
	}
	if next == nil {
		return false, "iterator shape not recognised"
	}
	header := next.Block()
	// loop blocks: those that can reach header and are dominated by header
	var body []*ssa.BasicBlock
	for _, b := range header.Parent().Blocks {
		if b != header && header.Dominates(b) && canReach(b, header) {
			body = append(body, b)
		}
	}
	// exits via return inside dominated region
	for _, b := range header.Parent().Blocks {
		if header.Dominates(b) && b != header && !canReach(b, header) {
			// a block after/leaving the loop; returns reached only from inside the body matter
			if len(b.Preds) > 0 {
				fromBody := false
				for _, p := range b.Preds {
					if p != header && header.Dominates(p) && canReach(p, header) {
						fromBody = true
					}
				}
				if fromBody {
					body = append(body, b)
				}
			}
		}
	}
	for _, b := range body {
		for _, in := range b.Instrs {
			switch x := in.(type) {
			case *ssa.Store:
				if !addrIsLocalAlloc(x.Addr) {
					return false, "body stores to non-local memory at " + e.p.Pos(x.Pos())
				}
				return false, "body assigns a variable (result may depend on iteration order) at " + e.p.Pos(x.Pos())
			case *ssa.MapUpdate:
				return false, "body updates a map at " + e.p.Pos(x.Pos())
			case *ssa.Return:
				for _, res := range x.Results {
					if _, ok := res.(*ssa.Const); !ok {
						return false, "body returns a value that depends on the iteration at " + e.p.Pos(x.Pos())
					}
				}
			case ssa.CallInstruction:
				com := x.Common()
				if b, ok := com.Value.(*ssa.Builtin); ok {
					if b.Name() == "len" || b.Name() == "cap" || b.Name() == "min" || b.Name() == "max" {
						continue
					}
					return false, "body calls builtin " + b.Name() + " at " + e.p.Pos(x.Pos())
				}
				f := com.StaticCallee()
				if f != nil && f.Pkg != nil && extReadsOnly(f.String(), f.Pkg.Pkg.Path()) {
					continue
				}
				return false, "body calls " + calleeName(com) + " at " + e.p.Pos(x.Pos())
			case *ssa.Phi:
				// phi at a body block merging iteration-dependent values is fine only if unused outside; conservative: allow
			}
		}
	}
	// values defined in the loop and used after it (e.g. accumulators) make the result order-dependent
	for _, b := range append(body, header) {
		for _, in := range b.Instrs {
			v, ok := in.(ssa.Value)
			if !ok {
				continue
			}
			if _, isPhi := v.(*ssa.Phi); !isPhi && b == header {
				continue
			}
			for _, ref := range refsOf(v) {
				rb := ref.Block()
				inLoop := rb == header
				for _, bb := range body {
					if bb == rb {
						inLoop = true
					}
				}
				if !inLoop {
					if _, isPhi := v.(*ssa.Phi); isPhi {
						return false, "a value accumulated across iterations is used after the loop"
					}
				}
			}
		}
	}
	return true, "body only answers a membership question"
}

func canReach(from, to *ssa.BasicBlock) bool {
	seen := map[*ssa.BasicBlock]bool{}
	var w func(b *ssa.BasicBlock) bool
	w = func(b *ssa.BasicBlock) bool {
		if b == to {
			return true
		}
		if seen[b] {
			return false
		}
		seen[b] = true
		for _, s := range b.Succs {
			if w(s) {
				return true
			}
		}
		return false
	}
	for _, s := range from.Succs {
		if w(s) {
			return true
		}
	}
	return false
}

func init() {
	addControls(
		Control{Name: "inline-node-mistagged", Props: []string{"C19"}, File: "node.go",
			Old: "\t\ttyp: nodeTypeInline,\n\t\tptr: unsafe.Pointer(inline),", New: "\t\ttyp: nodeTypeBlock,\n\t\tptr: unsafe.Pointer(inline),", Expect: "EFF-U/"},
		Control{Name: "block-pointer-read-without-tag-test", Props: []string{"C19"}, File: "node.go",
			Old: "\tif n.typ != nodeTypeBlock {\n\t\treturn nil\n\t}\n\treturn (*Block)(n.ptr)", New: "\tif n.typ == 0 {\n\t\treturn nil\n\t}\n\treturn (*Block)(n.ptr)", Expect: "EFF-U/(Node).Block:from-unsafe"},
		Control{Name: "lowerBuf-hoisted-to-package-var", Props: []string{"C19"}, File: "html_renderer.go",
			Old: "tagName := maybeLower(rawHTML[tagNameStart:tagNameEnd], &r.lowerBuf)", New: "tagName := maybeLower(rawHTML[tagNameStart:tagNameEnd], &sharedLowerBuf)",
			Edits: [][2]string{{"type renderState struct {", "var sharedLowerBuf []byte\n\ntype renderState struct {"}}, Expect: "EFF-G/maybeLower"},
		Control{Name: "renderer-mutated-in-AppendBlock", Props: []string{"C19", "C10"}, File: "html_renderer.go",
			Old: "	state := &renderState{\n		HTMLRenderer: r,", New: "	if r.ReferenceMap == nil {\n		r.ReferenceMap = ReferenceMap{}\n	}\n	state := &renderState{\n		HTMLRenderer: r,", Expect: "EFF-R/(*HTMLRenderer).AppendBlock"},
		Control{Name: "format-rewrites-source", Props: []string{"C19", "C20"}, File: "format/format.go",
			Old: "			markerBytes := spanSlice(source, marker.Span())\n", New: "			markerBytes := spanSlice(source, marker.Span())\n			if markerBytes[0] == '+' {\n				markerBytes[0] = '-'\n			}\n", Expect: "format.preBlock"},
		Control{Name: "neg-render-buffer-from-sync-pool", Props: []string{"C19"}, Negative: true, File: "html_renderer.go",
			Old: "	var buf []byte\n	for i, b := range blocks {", New: "	buf := bufPool.Get().([]byte)\n	defer bufPool.Put(buf)\n	for i, b := range blocks {",
			Edits: [][2]string{{"type renderState struct {", "var bufPool = sync.Pool{New: func() any { return []byte(nil) }}\n\ntype renderState struct {"}, {"\t\"strings\"\n\t\"unicode/utf8\"\n\n\t\"golang.org/x/net/html/atom\"", "\t\"strings\"\n\t\"sync\"\n\t\"unicode/utf8\"\n\n\t\"golang.org/x/net/html/atom\""}}},
		Control{Name: "render-timestamp-comment", Props: []string{"C19", "C10"}, File: "html_renderer.go",
			Old: "	var buf []byte\n	for i, b := range blocks {", New: "	var buf []byte\n	_ = time.Now()\n	for i, b := range blocks {",
			Edits: [][2]string{{"\t\"strings\"\n\t\"unicode/utf8\"\n", "\t\"strings\"\n\t\"time\"\n\t\"unicode/utf8\"\n"}}, Expect: "EFF-X/(*HTMLRenderer).Render"},
		Control{Name: "inline-text-memoised-in-node", Props: []string{"C19", "C10"}, File: "inlines.go",
			Old: "	case HardLineBreakKind:\n		return \"\\n\"\n	case IndentKind:", New: "	case HardLineBreakKind:\n		inline.ref = \"\\n\"\n		return inline.ref\n	case IndentKind:", Expect: "EFF-R/(*Inline).Text"},
		Control{Name: "walk-goroutine-per-subtree", Props: []string{"C19"}, File: "walk.go",
			Old: "	cursor := new(Cursor)\n", New: "	cursor := new(Cursor)\n	done := make(chan struct{})\n	go func() { close(done) }()\n	<-done\n", Expect: "DET/Walk"},
		Control{Name: "neg-MatchReference-as-map-range", Props: []string{"C19"}, File: "references.go", Negative: true,
			Old: "	_, ok := m[normalizedLabel]\n	return ok", New: "	for k := range m {\n		if k == normalizedLabel {\n			return true\n		}\n	}\n	return false"},
		Control{Name: "neg-render-helper-with-local-buffer", Props: []string{"C19", "C10"}, File: "html_renderer.go", Negative: true,
			Old: "	r.openTagAttr(name)\n	r.dst = append(r.dst, '>')", New: "	r.openTagAttr(name)\n	tmp := make([]byte, 0, 1)\n	tmp = append(tmp, '>')\n	r.dst = append(r.dst, tmp...)"},
	)
}
