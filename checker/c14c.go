package main

// C14 — LE-COUNT: code that counts line endings byte by byte knows that CR LF is one line ending.

import (
	"fmt"
	"go/token"
	"go/types"

	"golang.org/x/tools/go/ssa"
)

func isLEConst(v ssa.Value) (int64, bool) {
	k, ok := constInt(v)
	if !ok || (k != '\n' && k != '\r') {
		return 0, false
	}
	if c, ok := v.(*ssa.Const); ok {
		if bt, ok := c.Type().Underlying().(*types.Basic); ok && (bt.Kind() == types.Uint8 || bt.Kind() == types.Int32 || bt.Kind() == types.UntypedRune) {
			return k, true
		}
	}
	return 0, false
}

// leCompare: v == '\n' / v == '\r' (or !=): returns the compared value and the constant.
func leCompare(v ssa.Value) (ssa.Value, int64, token.Token, bool) {
	bo, ok := v.(*ssa.BinOp)
	if !ok || (bo.Op != token.EQL && bo.Op != token.NEQ) {
		return nil, 0, 0, false
	}
	if k, ok := isLEConst(bo.Y); ok {
		return bo.X, k, bo.Op, true
	}
	if k, ok := isLEConst(bo.X); ok {
		return bo.Y, k, bo.Op, true
	}
	return nil, 0, 0, false
}

func ruleLECount(c *Ctx) {
	c.Rule("LE-COUNT", "Where a loop keeps state about the line endings it has seen — a counter stepped, or a flag set and also tested, inside the branch taken for a byte that is LF or CR alike — the function also looks at a neighbouring byte for the other half of a CR LF pair (a second comparison with LF or CR on a different value). Without that a CR LF document has twice as many line endings as the same document with LF, and a limit of \"one line ending\" is reached in the middle of the pair.")
	p := c.P
	n := 0
	for _, fn := range p.Funcs {
		if fn.Blocks == nil {
			continue
		}
		loops := naturalLoops(fn)
		if len(loops) == 0 {
			continue
		}
		// region entries: blocks reached by the true edge of (b == LF) and of (b == CR) for the same b
		type key struct {
			blk *ssa.BasicBlock
			val ssa.Value
		}
		seen := map[key]map[int64]bool{}
		var others []ssa.Value // every value compared with LF/CR in the function
		for _, b := range fn.Blocks {
			eachLE := func(v ssa.Value) {
				if x, _, _, ok := leCompare(v); ok {
					others = append(others, x)
				}
			}
			for _, in := range b.Instrs {
				if bo, ok := in.(*ssa.BinOp); ok {
					eachLE(bo)
				}
			}
			iff := blockIf(b)
			if iff == nil {
				continue
			}
			x, k, op, ok := leCompare(iff.Cond)
			if !ok {
				continue
			}
			edge := 0
			if op == token.NEQ {
				edge = 1
			}
			kk := key{b.Succs[edge], x}
			if seen[kk] == nil {
				seen[kk] = map[int64]bool{}
			}
			seen[kk][k] = true
		}
		// switch lowering and || chains both give a common target block; a tagged switch `case '\n', '\r'` too
		for kk, ks := range seen {
			if !ks['\n'] || !ks['\r'] {
				continue
			}
			T, bval := kk.blk, kk.val
			// the branch must belong to line endings alone: every edge into it is the true side of a comparison of the
			// same byte with LF or CR (a shared "ignore" or "continue" block also reached for spaces is not a region)
			exclusive := true
			for _, pr := range T.Preds {
				iff := blockIf(pr)
				if iff == nil {
					exclusive = false
					break
				}
				x, _, op, ok := leCompare(iff.Cond)
				edge := 0
				if op == token.NEQ {
					edge = 1
				}
				if !ok || x != bval || pr.Succs[edge] != T || pr.Succs[1-edge] == T {
					exclusive = false
					break
				}
			}
			if !exclusive {
				continue
			}
			// innermost loop containing T
			var loop *natLoop
			for i := range loops {
				if loops[i].body[T] && (loop == nil || len(loops[i].body) < len(loop.body)) {
					loop = &loops[i]
				}
			}
			if loop == nil {
				continue
			}
			inRegion := func(b *ssa.BasicBlock) bool { return T.Dominates(b) && loop.body[b] }
			// loop-carried state set in the region
			for _, in := range loop.header.Instrs {
				ph, ok := in.(*ssa.Phi)
				if !ok {
					break
				}
				setInRegion, stepped, tested := false, false, false
				// values that reach the phi from inside the loop, following inner phis
				var reach func(v ssa.Value, from *ssa.BasicBlock, depth int)
				visited := map[ssa.Value]bool{}
				reach = func(v ssa.Value, from *ssa.BasicBlock, depth int) {
					if depth > 20 || v == ssa.Value(ph) {
						return
					}
					switch x := v.(type) {
					case *ssa.Const:
						if inRegion(from) {
							setInRegion = true
						}
					case *ssa.BinOp:
						if inRegion(x.Block()) && (x.Op == token.ADD || x.Op == token.SUB) && (x.X == ssa.Value(ph) || x.Y == ssa.Value(ph)) {
							setInRegion, stepped = true, true
						}
					case *ssa.Phi:
						if visited[x] {
							return
						}
						visited[x] = true
						for i, e := range x.Edges {
							reach(e, x.Block().Preds[i], depth+1)
						}
					}
				}
				for i, e := range ph.Edges {
					if loop.body[ph.Block().Preds[i]] {
						reach(e, ph.Block().Preds[i], 0)
					}
				}
				if !setInRegion {
					continue
				}
				// tested inside the region (or the block that leads into it on the same byte)?
				for _, b := range fn.Blocks {
					if !inRegion(b) {
						continue
					}
					if iff := blockIf(b); iff != nil && dependsOn(iff.Cond, ph) {
						tested = true
					}
				}
				if !stepped && !tested {
					continue
				}
				n++
				// the other half of the pair: a comparison with LF/CR on a different value
				pairAware := false
				for _, o := range others {
					if o != bval && !sameTerm(o, bval) {
						pairAware = true
					}
				}
				what := "a flag set and tested"
				if stepped {
					what = "a counter stepped"
				}
				c.Check(pairAware, "LE-COUNT", fmt.Sprintf("%s:%s", shortFuncName(fn), ph.Comment), T.Instrs[0].Pos(), what+" for every byte that is LF or CR, and no neighbouring byte is compared with LF or CR: CR LF counts as two line endings")
			}
		}
	}
	c.Analysed["line_ending_counting_loops"] = n
}
