package main

// C15 — byte/rune classifiers match the spec's definitions (BSET), URI safe set (URI-SAFESET).

import (
	"fmt"
	"go/token"
	"go/types"
	"sort"
	"strings"
	"unicode"

	"golang.org/x/tools/go/ssa"
)

func init() { props["C15"] = checkC15 }

type classifierOracle struct {
	fn     string
	domain string // "byte" or "rune"
	accept func(v int64) bool
	src    string
}

func inRanges(v int64, rs ...[2]int64) bool {
	for _, r := range rs {
		if v >= r[0] && v <= r[1] {
			return true
		}
	}
	return false
}

var classifierOracles = []classifierOracle{
	{"isASCIIPunctuation", "byte", func(v int64) bool {
		return inRanges(v, [2]int64{0x21, 0x2f}, [2]int64{0x3a, 0x40}, [2]int64{0x5b, 0x60}, [2]int64{0x7b, 0x7e})
	}, "CommonMark 0.30 §2.1 ASCII punctuation character: U+0021–2F, U+003A–0040, U+005B–0060, U+007B–007E"},
	{"isASCIIControl", "byte", func(v int64) bool { return v <= 0x1f || v == 0x7f },
		"CommonMark 0.30 §2.1 ASCII control character: U+0000–1F, U+007F"},
	{"isSpaceTabOrLineEnding", "byte", func(v int64) bool { return v == ' ' || v == '\t' || v == '\n' || v == '\r' },
		"space, tab, line feed, carriage return"},
	{"isASCIILetter", "byte", func(v int64) bool { return inRanges(v, [2]int64{'A', 'Z'}, [2]int64{'a', 'z'}) }, "A–Z, a–z"},
	{"isASCIIDigit", "byte", func(v int64) bool { return inRanges(v, [2]int64{'0', '9'}) }, "0–9"},
	{"isHex", "byte", func(v int64) bool {
		return inRanges(v, [2]int64{'0', '9'}, [2]int64{'a', 'f'}, [2]int64{'A', 'F'})
	}, "hexadecimal digit: 0–9, a–f, A–F (CommonMark 0.30 §2.5 hexadecimal numeric character references; RFC 3986 HEXDIG)"},
	{"isUnicodeWhitespace", "rune", func(v int64) bool {
		return unicode.Is(unicode.Zs, rune(v)) || v == 0x09 || v == 0x0a || v == 0x0c || v == 0x0d
	}, "CommonMark 0.30 §2.1 Unicode whitespace character: general category Zs, or U+0009, U+000A, U+000C, U+000D"},
	{"isUnicodePunctuation", "rune", func(v int64) bool {
		if v < 0x80 {
			return inRanges(v, [2]int64{0x21, 0x2f}, [2]int64{0x3a, 0x40}, [2]int64{0x5b, 0x60}, [2]int64{0x7b, 0x7e})
		}
		return unicode.In(rune(v), unicode.Pc, unicode.Pd, unicode.Pe, unicode.Pf, unicode.Pi, unicode.Po, unicode.Ps)
	}, "CommonMark 0.30 §2.1 Unicode punctuation character: ASCII punctuation or general categories Pc, Pd, Pe, Pf, Pi, Po, Ps"},
	{"isUnquotedAttributeValueChar", "byte", func(v int64) bool {
		return !(v == ' ' || v == '\t' || v == '\n' || v == '\r') && !strings.ContainsRune("\"'=<>`", rune(v))
	}, "CommonMark 0.30 §6.6 unquoted attribute value: no spaces, tabs, line endings, \", ', =, <, >, `"},
}

// checkClassifierOracle compares the exact accept set of one classifier with its oracle (shared by C15 and C11).
func checkClassifierOracle(c *Ctx, e *bsetEngine, o classifierOracle, rule string) {
	fn := c.P.Func(o.fn)
	if !c.NeedFunc(rule, fn, o.fn) {
		return
	}
	t := e.Table(fn)
	c.Analysed["domain_elements"] += len(t.domain)
	if t.why != "" {
		c.Undecided(rule, o.fn, fn.Pos(), "predicate not analysable: "+t.why)
		return
	}
	var extra, missing []int64
	panics := 0
	for i, d := range t.domain {
		r := t.res[i]
		if r.kind == oPanic {
			panics++
			continue
		}
		got := r.val != 0
		want := o.accept(d)
		if got && !want {
			extra = append(extra, d)
		}
		if !got && want {
			missing = append(missing, d)
		}
	}
	if len(extra) == 0 && len(missing) == 0 && panics == 0 {
		c.OK(rule, o.fn, fn.Pos(), fmt.Sprintf("accept set over %d %ss equals: %s", len(t.domain), o.domain, o.src))
	} else {
		c.Viol(rule, o.fn, fn.Pos(), fmt.Sprintf("accept set differs from spec (%s): wrongly accepted %s, wrongly rejected %s, panics on %d values", o.src, describeSet(extra, true), describeSet(missing, true), panics))
	}
}

func checkC15(c *Ctx) {
	c.Rule("BSET", "For each byte/rune classifier the exact accept set, obtained by propagating every element of the parameter's domain through the function's loop-free SSA control-flow graph, equals the set transcribed from CommonMark 0.30 / RFC 3986. A predicate that is no longer analysable (loop, memory access, unmodelled callee) is undecided.")
	c.Rule("BSET-MAP", "toLowerASCII maps A–Z to a–z and is the identity elsewhere; urlHexDigit maps 0..15 to 0-9A-F.")
	c.Rule("URI-SAFESET", "The constant safe set in NormalizeURI is a subset of RFC 3986 reserved ∪ unreserved characters; every byte/rune written by NormalizeURI is a constant '%' / \"%25\", a urlHexDigit result, or the current rune on a path guarded by the safe-set test or the validated-escape skip counter.")
	c.Assume("go/ssa faithfully represents the classifiers; Unicode tables are those of the Go standard library used to build the checker")
	e := newBSET(c.P)
	for _, o := range classifierOracles {
		checkClassifierOracle(c, e, o, "BSET")
	}
	// byte -> byte maps
	if fn := c.P.Func("toLowerASCII"); c.NeedFunc("BSET-MAP", fn, "toLowerASCII") {
		t := e.Table(fn)
		if t.why != "" {
			c.Undecided("BSET-MAP", "toLowerASCII", fn.Pos(), "not analysable: "+t.why)
		} else {
			var bad []int64
			for i, d := range t.domain {
				want := d
				if d >= 'A' && d <= 'Z' {
					want = d - 'A' + 'a'
				}
				if t.res[i].kind != oRet || t.res[i].val != want {
					bad = append(bad, d)
				}
			}
			c.Check(len(bad) == 0, "BSET-MAP", "toLowerASCII", fn.Pos(), "A–Z→a–z, identity elsewhere; deviating inputs: "+describeSet(bad, true))
		}
	}
	if fn := c.P.Func("urlHexDigit"); c.NeedFunc("BSET-MAP", fn, "urlHexDigit") {
		t := e.Table(fn)
		if t.why != "" {
			c.Undecided("BSET-MAP", "urlHexDigit", fn.Pos(), "not analysable: "+t.why)
		} else {
			var bad []int64
			for i, d := range t.domain {
				if d < 16 {
					if t.res[i].kind != oRet || t.res[i].val != int64("0123456789ABCDEF"[d]) {
						bad = append(bad, d)
					}
				}
			}
			c.Check(len(bad) == 0, "BSET-MAP", "urlHexDigit", fn.Pos(), "0..15 → 0-9A-F; deviating inputs: "+describeSet(bad, false))
		}
	}
	checkURISafeSet(c, e)
	ruleSpecBounds(c)
	ruleSpanScan(c)
	ruleWSSpecRecognisers(c)
	ruleMinLen(c, "C15")
	ruleStartNonBlank(c)
	rulePrefilter(c)
	c.MinCount("BSET", len(classifierOracles))
}

const rfc3986Safe = ":/?#[]@!$&'()*+,;=-._~"

// checkURISafeSet: see rule text URI-SAFESET.
func checkURISafeSet(c *Ctx, e *bsetEngine) {
	fn := c.P.Func("NormalizeURI")
	if !c.NeedFunc("URI-SAFESET", fn, "NormalizeURI") {
		return
	}
	// 1. constant sets used in membership tests on the current rune
	found := 0
	eachInstr(fn, func(in ssa.Instruction) {
		call, ok := in.(*ssa.Call)
		if !ok {
			return
		}
		cal := call.Call.StaticCallee()
		if cal == nil {
			return
		}
		switch cal.String() {
		case "strings.ContainsRune", "strings.IndexByte", "strings.IndexRune", "strings.ContainsAny", "strings.IndexAny":
			s, ok := constString(call.Call.Args[0])
			if !ok {
				c.Undecided("URI-SAFESET", "safeSet:nonconstant", call.Pos(), "membership test against a non-constant set")
				return
			}
			found++
			var bad []string
			for _, r := range s {
				if !(strings.ContainsRune(rfc3986Safe, r)) && !(r < 0x80 && (unicode.IsLetter(r) || unicode.IsDigit(r))) {
					bad = append(bad, fmt.Sprintf("%q", r))
				}
			}
			c.Check(len(bad) == 0, "URI-SAFESET", "safeSet:"+fmt.Sprint(found), call.Pos(), fmt.Sprintf("constant %q ⊆ RFC 3986 reserved ∪ unreserved; offending: %s", s, strings.Join(bad, " ")))
		}
	})
	if found == 0 {
		c.Undecided("URI-SAFESET", "safeSet", fn.Pos(), "no constant safe-set membership test found in NormalizeURI")
	}
	// 2. every write into the builder is one of the recognised classes
	// the current input rune: the rune extracted from the range-over-string iterator, or the rune decoded at the front of
	// a tail s[i:] of the input string
	curRunes := map[ssa.Value]bool{}
	eachInstr(fn, func(in ssa.Instruction) {
		ex, ok := in.(*ssa.Extract)
		if !ok {
			return
		}
		if _, ok := ex.Tuple.(*ssa.Next); ok && ex.Index == 2 {
			curRunes[ex] = true
		}
		if dc, ok := ex.Tuple.(*ssa.Call); ok && ex.Index == 0 && dc.Call.StaticCallee() != nil && dc.Call.StaticCallee().String() == "unicode/utf8.DecodeRuneInString" {
			if sl, ok := dc.Call.Args[0].(*ssa.Slice); ok && len(fn.Params) > 0 && sl.X == ssa.Value(fn.Params[0]) && sl.High == nil {
				curRunes[ex] = true
			}
		}
	})
	// validatedEscapeCopy: s[L:L+3] of the input, written where the current rune is known to be '%' and two isHex tests have succeeded
	validatedEscapeCopy := func(arg ssa.Value, at *ssa.BasicBlock) (bool, string) {
		sl, ok := arg.(*ssa.Slice)
		if !ok || len(fn.Params) == 0 || sl.X != ssa.Value(fn.Params[0]) || sl.Low == nil || sl.High == nil {
			return false, "non-constant string written: " + arg.String()
		}
		lb, lk := linTerm(sl.Low)
		hb, hk := linTerm(sl.High)
		if !(lb == hb || sameTerm(lb, hb)) || hk-lk != 3 {
			return false, "a piece of the input that is not three bytes long is copied verbatim"
		}
		isHex := c.P.Func("isHex")
		hexTests, pct := 0, false
		for _, b := range fn.Blocks {
			iff := blockIf(b)
			if iff == nil {
				continue
			}
			if call, ok := iff.Cond.(*ssa.Call); ok && isHex != nil && call.Call.StaticCallee() == isHex && edgeDominates(b, 0, at) {
				var strX, strIdx ssa.Value
				switch y := call.Call.Args[0].(type) {
				case *ssa.Lookup:
					strX, strIdx = y.X, y.Index
				case *ssa.Index:
					strX, strIdx = y.X, y.Index
				}
				if strX != nil {
					// through re-slices of the input: rest := s[i+1:]; rest[0]
					root, rb, rk, okR := sliceRoot(strX)
					if !okR || root != ssa.Value(fn.Params[0]) {
						continue
					}
					ib, ik := linTerm(strIdx)
					if cst, isC := constInt(strIdx); isC {
						ib, ik = nil, cst
					}
					switch {
					case rb == nil:
					case ib == nil:
						ib = rb
					default:
						continue
					}
					ik += rk
					if ib == nil {
						continue
					}
					if (ib == lb || sameTerm(ib, lb)) && (ik-lk == 1 || ik-lk == 2) {
						hexTests++
					}
				}
			}
			if bo, ok := iff.Cond.(*ssa.BinOp); ok && bo.Op == token.EQL {
				if v, isC := constInt(bo.Y); isC && v == '%' && edgeDominates(b, 0, at) {
					if curRunes[bo.X] {
						pct = true
					}
					// or the byte of the input at the start of the copy: s[i] == '%'
					var bx, bi ssa.Value
					switch y := bo.X.(type) {
					case *ssa.Lookup:
						bx, bi = y.X, y.Index
					case *ssa.Index:
						bx, bi = y.X, y.Index
					}
					if bx != nil && bx == ssa.Value(fn.Params[0]) {
						ib, ik := linTerm(bi)
						if (ib == lb || sameTerm(ib, lb)) && ik == lk {
							pct = true
						}
					}
				}
			}
		}
		if hexTests < 2 {
			return false, fmt.Sprintf("three input bytes copied verbatim after only %d isHex tests on the two bytes behind the first", hexTests)
		}
		if !pct {
			return false, "three input bytes copied verbatim where the current rune is not known to be '%'"
		}
		return true, "a validated escape (current rune '%', two isHex tests on the next two bytes) copied verbatim"
	}
	writes := 0
	eachInstr(fn, func(in ssa.Instruction) {
		call, ok := in.(*ssa.Call)
		if !ok {
			return
		}
		cal := call.Call.StaticCallee()
		if cal == nil || !strings.HasPrefix(cal.String(), "(*strings.Builder).Write") {
			return
		}
		writes++
		arg := call.Call.Args[1]
		key := fmt.Sprintf("write:%s#%d", cal.Name(), writes)
		switch cal.Name() {
		case "WriteByte":
			if v, ok := constInt(arg); ok {
				c.Check(v == '%', "URI-SAFESET", key, call.Pos(), fmt.Sprintf("constant byte %q must be '%%'", rune(v)))
				return
			}
			if cc, ok := arg.(*ssa.Call); ok && cc.Call.StaticCallee() != nil && cc.Call.StaticCallee() == c.P.Func("urlHexDigit") {
				c.OK("URI-SAFESET", key, call.Pos(), "urlHexDigit result")
				return
			}
			c.Viol("URI-SAFESET", key, call.Pos(), "byte written is neither '%' nor a urlHexDigit result: "+arg.String())
		case "WriteString":
			if s, ok := constString(arg); ok {
				good := s == "%25" || strings.Trim(s, rfc3986Safe+"abcdefghijklmnopqrstuvwxyzABCDEFGHIJKLMNOPQRSTUVWXYZ0123456789") == "" || isPctEscapes(s)
				c.Check(good, "URI-SAFESET", key, call.Pos(), fmt.Sprintf("constant string %q must consist of safe characters and well-formed escapes", s))
				return
			}
			okEsc, why := validatedEscapeCopy(arg, call.Block())
			c.Check(okEsc, "URI-SAFESET", key, call.Pos(), why)
		case "WriteRune":
			if !curRunes[arg] {
				c.Viol("URI-SAFESET", key, call.Pos(), "rune written is not the current input rune: "+arg.String())
				return
			}
			// the write must be guarded: dominated by a true edge whose condition involves the safe-set test / letter / digit,
			// or by the skip>0 edge (validated escape digits).
			ok, why := runeWriteGuarded(c, e, call, arg)
			c.Check(ok, "URI-SAFESET", key, call.Pos(), why)
		default:
			c.Viol("URI-SAFESET", key, call.Pos(), "unrecognised builder write "+cal.Name())
		}
	})
	if writes < 4 {
		c.Undecided("URI-SAFESET", "writes", fn.Pos(), fmt.Sprintf("only %d builder writes recognised; NormalizeURI no longer has the analysed shape", writes))
	}
}

func isPctEscapes(s string) bool {
	if len(s)%3 != 0 || s == "" {
		return false
	}
	for i := 0; i < len(s); i += 3 {
		if s[i] != '%' || !strings.ContainsRune("0123456789ABCDEFabcdef", rune(s[i+1])) || !strings.ContainsRune("0123456789ABCDEFabcdef", rune(s[i+2])) {
			return false
		}
	}
	return true
}

// runeWriteGuarded decides, for the WriteRune(c) site, the set of rune values that can reach it,
// by propagating the rune domain through the conditions of the enclosing loop body that depend only on c.
func runeWriteGuarded(c *Ctx, e *bsetEngine, call *ssa.Call, sym ssa.Value) (bool, string) {
	fn := call.Parent()
	target := call.Block()
	// Case A: dominated by the true edge of `skip > 0` where skip is only ever assigned the constant 2 after two isHex tests.
	for _, b := range fn.Blocks {
		iff := blockIf(b)
		if iff == nil {
			continue
		}
		if bo, ok := iff.Cond.(*ssa.BinOp); ok && bo.Op == token.GTR {
			if z, ok := constInt(bo.Y); ok && z == 0 && edgeDominates(b, 0, target) {
				if phi, ok := bo.X.(*ssa.Phi); ok {
					if okSkip, why := skipCounterValidated(c, phi); okSkip {
						return true, "guarded by the escape skip counter, which is set only after two isHex tests"
					} else {
						return false, "skip counter guard not validated: " + why
					}
				}
			}
		}
	}
	// Case B: path-set propagation from the block defining sym.
	start := sym.(ssa.Instruction).Block()
	reach := propagateSymSets(e, fn, start, sym, runeDomain(), target)
	if reach == nil {
		return false, "conditions guarding the write are not analysable as functions of the current rune"
	}
	var bad []int64
	for _, v := range reach {
		r := rune(v)
		if r < 0x80 && (unicode.IsLetter(r) || unicode.IsDigit(r)) {
			continue
		}
		if strings.ContainsRune(rfc3986Safe, r) {
			continue
		}
		bad = append(bad, v)
	}
	if len(bad) > 0 {
		return false, "runes written verbatim that are not RFC 3986 reserved/unreserved: " + describeSet(bad, true)
	}
	return true, fmt.Sprintf("%d rune values can reach the verbatim write, all RFC 3986 reserved/unreserved", len(reach))
}

// skipCounterValidated: every non-zero, non-decrement value flowing into the skip phi is the constant 2 assigned in a block
// dominated by true edges of two isHex calls.
func skipCounterValidated(c *Ctx, phi *ssa.Phi) (bool, string) {
	isHex := c.P.Func("isHex")
	seen := map[ssa.Value]bool{}
	var visit func(v ssa.Value, from *ssa.BasicBlock) (bool, string)
	visit = func(v ssa.Value, from *ssa.BasicBlock) (bool, string) {
		if seen[v] {
			return true, ""
		}
		seen[v] = true
		switch x := v.(type) {
		case *ssa.Const:
			n, _ := constInt(x)
			if n == 0 {
				return true, ""
			}
			// block `from` must be dominated by >= n successful isHex tests
			cnt := 0
			for _, b := range from.Parent().Blocks {
				iff := blockIf(b)
				if iff == nil {
					continue
				}
				if call, ok := iff.Cond.(*ssa.Call); ok && call.Call.StaticCallee() == isHex && isHex != nil && edgeDominates(b, 0, from) {
					cnt++
				}
			}
			if int64(cnt) >= n {
				return true, ""
			}
			return false, fmt.Sprintf("skip=%d assigned after only %d isHex tests", n, cnt)
		case *ssa.Phi:
			for i, ed := range x.Edges {
				if ok, why := visit(ed, x.Block().Preds[i]); !ok {
					return false, why
				}
			}
			return true, ""
		case *ssa.BinOp:
			if x.Op == token.SUB {
				if k, ok := constInt(x.Y); ok && k == 1 {
					return visit(x.X, from)
				}
			}
		}
		return false, "unrecognised value flows into the skip counter: " + v.String()
	}
	return visit(phi, phi.Block())
}

// propagateSymSets computes the set of sym values for which `target` is reachable from `start`, branching both ways on
// conditions that do not depend on sym alone. Returns nil if nothing could be decided.
func propagateSymSets(e *bsetEngine, fn *ssa.Function, start *ssa.BasicBlock, sym ssa.Value, dom []int64, target *ssa.BasicBlock) []int64 {
	var out []int64
	st := &evalState{e: e, fn: fn, isSym: func(v ssa.Value) bool { return v == sym }, from: make([]int, len(fn.Blocks))}
	decidedAny := false
	for _, d := range dom {
		st.d = d
		for j := range st.from {
			st.from[j] = -2
		}
		st.why = ""
		var dfs func(b *ssa.BasicBlock, depth int) bool
		dfs = func(b *ssa.BasicBlock, depth int) bool {
			if b == target {
				return true
			}
			if depth > len(fn.Blocks) {
				return false
			}
			switch t := b.Instrs[len(b.Instrs)-1].(type) {
			case *ssa.If:
				st.why = ""
				v, ok := st.eval(t.Cond)
				succs := b.Succs
				if ok {
					decidedAny = true
					if v != 0 {
						succs = b.Succs[:1]
					} else {
						succs = b.Succs[1:]
					}
				}
				for _, s := range succs {
					if s == start || st.from[s.Index] != -2 {
						continue
					}
					st.from[s.Index] = b.Index
					r := dfs(s, depth+1)
					st.from[s.Index] = -2
					if r {
						return true
					}
				}
			case *ssa.Jump:
				s := b.Succs[0]
				if s == start || st.from[s.Index] != -2 {
					return false
				}
				st.from[s.Index] = b.Index
				r := dfs(s, depth+1)
				st.from[s.Index] = -2
				return r
			}
			return false
		}
		st.from[start.Index] = -1
		if dfs(start, 0) {
			out = append(out, d)
		}
	}
	if !decidedAny {
		return nil
	}
	return out
}

func init() {
	addControls(
		Control{Name: "isASCIIControl-without-DEL", Props: []string{"C15"}, File: "parse.go",
			Old: "return c <= 0x1f || c == 0x7f", New: "return c <= 0x1f", Expect: "BSET/isASCIIControl"},
		Control{Name: "isHex-upper-bound", Props: []string{"C15"}, File: "html_renderer.go",
			Old: "'A' <= c && c <= 'F'", New: "'A' <= c && c <= 'f'", Expect: "BSET/isHex"},
		Control{Name: "punctuation-drops-Pc", Props: []string{"C15"}, File: "parse.go",
			Old: "unicode.In(c, unicode.Pc, unicode.Pd,", New: "unicode.In(c, unicode.Pd,", Expect: "BSET/isUnicodePunctuation"},
		Control{Name: "safeSet-gains-backslash", Props: []string{"C15"}, File: "html_renderer.go",
			Old: "const safeSet = `;/?:@&=+$,-_.!~*'()#`", New: "const safeSet = `;/?:@&=+$,-_.!~*'()#\\|`", Expect: "URI-SAFESET"},
		Control{Name: "uri-verbatim-nonascii-letters", Props: []string{"C15"}, File: "html_renderer.go",
			Old: "case (c < 0x80 && (isASCIILetter(byte(c)) || isASCIIDigit(byte(c)))) || strings.ContainsRune(safeSet, c):",
			New: "case isASCIILetter(byte(c)) || isASCIIDigit(byte(c)) || strings.ContainsRune(safeSet, c):", Expect: "URI-SAFESET"},
		Control{Name: "domain-label-64", Props: []string{"C15"}, File: "inlines.go",
			Old: "for end < 63 && end < len(text)", New: "for end <= 63 && end < len(text)", Expect: "SPEC-BOUNDS/parseDomainLabel"},
		Control{Name: "fence-needs-four-bytes", Props: []string{"C15"}, File: "blocks.go",
			Old: "if len(line) < minConsecutive || (line[0] != '`' && line[0] != '~') {", New: "if len(line) <= minConsecutive || (line[0] != '`' && line[0] != '~') {", Expect: "SPEC-BOUNDS/parseCodeFence"},
		Control{Name: "seven-hashes-heading", Props: []string{"C15"}, File: "blocks.go",
			Old: "if h.level == 0 || h.level > 6 {", New: "if h.level == 0 || h.level > 7 {", Expect: "SPEC-BOUNDS/parseATXHeading"},
		Control{Name: "neg-domain-label-bound-rewritten", Props: []string{"C15"}, File: "inlines.go", Negative: true,
			Old: "for end < 63 && end < len(text)", New: "for 62 >= end && end < len(text)"},
		Control{Name: "neg-isASCIIDigit-as-switch", Props: []string{"C15"}, File: "parse.go", Negative: true,
			Old: "return '0' <= c && c <= '9'", New: "switch {\n\tcase c < '0':\n\t\treturn false\n\tcase c > '9':\n\t\treturn false\n\t}\n\treturn true"},
		Control{Name: "neg-isHex-via-IndexByte", Props: []string{"C15"}, File: "html_renderer.go", Negative: true,
			Old: "return 'a' <= c && c <= 'f' || 'A' <= c && c <= 'F' || isASCIIDigit(c)", New: "return strings.IndexByte(\"0123456789abcdefABCDEF\", c) >= 0"},
	)
}

// ---------------------------------------------------------------------------------------------
// SPEC-BOUNDS: numeric limits of the recognisers equal the spec's numbers

type specBound struct {
	fn    string
	dir   string // "<=" : condition holds for values up to T ; ">=" : holds for values from T
	T     int64
	count int
	src   string
	alts  []string // equivalent normalised facts that also discharge the obligation (e.g. an iteration bound)
	prop  string   // the property whose statement names this limit
}

var specBounds = []specBound{
	{"parseATXHeading", ">=", 7, 1, "ATX heading: opening sequence of 1–6 '#' (reject from 7)", nil, "C15"},
	{"parseListMarker", "iter<=", 9, 1, "ordered list marker: 1–9 digits (a counting loop takes at most 9 values, or the line is cut to 9 digits + delimiter = 10 bytes when longer)", []string{">=11"}, "C15"},
	{"parseLinkLabel", ">=", 999, 1, "link label: at most 999 characters (stop at 999)", nil, "C12"},
	{"parseLinkLabel", "<=", 998, 1, "link label: at most 999 characters (continue up to 998)", nil, "C12"},
	{"parseAutolink", "<=", 2, 1, "autolink scheme: at least 2 characters", nil, "C15"},
	{"parseAutolink", ">=", 34, 1, "autolink scheme: at most 32 characters", nil, "C15"},
	{"parseDomainLabel", "<=", 62, 1, "e-mail domain label: at most 63 characters", nil, "C15"},
	{"parseCharacterEscape", ">=", 8, 1, "hexadecimal character reference: 1–6 digits", nil, "C07"},
	{"parseCharacterEscape", ">=", 9, 1, "decimal character reference: 1–7 digits", nil, "C07"},
	{"parseCodeFence", "<=", 2, 2, "code fence: at least three fence characters (line length and run length)", nil, "C15"},
	{"parseThematicBreak", "<=", 2, 1, "thematic break: at least three characters", nil, "C15"},
	{"parseListMarker", "iter<=", 9, 1, "ordered list marker: 1–9 digits (the list-marker block spans what this recogniser accepts)", []string{">=11"}, "C13"},
}

// specBoundGroups: limits of one recogniser that are measured on the same quantity (both ends of one range).
var specBoundGroups = map[string][]specBound{
	"parseAutolink": {{fn: "parseAutolink", dir: "<=", T: 2, count: 1}, {fn: "parseAutolink", dir: ">=", T: 34, count: 1}},
}

// thresholdsOf normalises every comparison of a non-constant integer with a constant in fn to (dir, T).
// A comparison whose variable is a unit-stride loop counter (a header phi with a constant start a and a back edge
// counter+1) is additionally recorded by the number of values the counter can take while the comparison holds:
// `i < c` with start a gives "iter<=c-a" — so `for i := 1; i < 10` and `for n := 0; n < 9` both read "iter<=9".
func thresholdsOf(fn *ssa.Function) map[string]int {
	out := map[string]int{}
	counterStart := func(v ssa.Value) (int64, bool) {
		ph, ok := v.(*ssa.Phi)
		if !ok {
			return 0, false
		}
		var start int64
		haveStart, haveStep := false, false
		for _, e := range ph.Edges {
			if k, ok := constInt(e); ok {
				if haveStart && k != start {
					return 0, false
				}
				start, haveStart = k, true
				continue
			}
			if bo, ok := e.(*ssa.BinOp); ok && bo.Op == token.ADD && bo.X == ssa.Value(ph) {
				if one, ok := constInt(bo.Y); ok && one == 1 {
					haveStep = true
					continue
				}
			}
			if e == ssa.Value(ph) {
				continue
			}
			return 0, false
		}
		return start, haveStart && haveStep
	}
	eachInstr(fn, func(in ssa.Instruction) {
		bo, ok := in.(*ssa.BinOp)
		if !ok {
			return
		}
		var k int64
		var op token.Token
		var variable ssa.Value
		switch bo.Op {
		case token.LSS, token.LEQ, token.GTR, token.GEQ, token.EQL, token.NEQ:
		default:
			return
		}
		if c, ok := constInt(bo.Y); ok {
			if _, isC := constInt(bo.X); isC {
				return
			}
			k, op, variable = c, bo.Op, bo.X
		} else if c, ok := constInt(bo.X); ok {
			k = c
			op = map[token.Token]token.Token{token.LSS: token.GTR, token.LEQ: token.GEQ, token.GTR: token.LSS, token.GEQ: token.LEQ}[bo.Op]
			variable = bo.Y
		} else {
			// a limit chosen among constants (limit := 7; if hex { limit = 6 }; n > limit+1) or capped by a constant
			// (limit := min(len(s), 63); i < limit): one threshold per constant
			flipped := map[token.Token]token.Token{token.LSS: token.GTR, token.LEQ: token.GEQ, token.GTR: token.LSS, token.GEQ: token.LEQ}
			record := func(variable ssa.Value, op token.Token, ks []int64) {
				if b, ok := variable.Type().Underlying().(*types.Basic); !ok || b.Info()&types.IsInteger == 0 || b.Kind() == types.Uint8 {
					return
				}
				for _, k := range ks {
					switch op {
					case token.LSS:
						out[fmt.Sprintf("<=%d", k-1)]++
					case token.LEQ:
						out[fmt.Sprintf("<=%d", k)]++
					case token.GTR:
						out[fmt.Sprintf(">=%d", k+1)]++
					case token.GEQ:
						out[fmt.Sprintf(">=%d", k)]++
					}
				}
			}
			if ks := limitConstants(bo.Y); len(ks) > 0 {
				record(bo.X, bo.Op, ks)
			} else if ks := limitConstants(bo.X); len(ks) > 0 {
				record(bo.Y, flipped[bo.Op], ks)
			}
			return
		}
		if b, ok := variable.Type().Underlying().(*types.Basic); !ok || b.Info()&types.IsInteger == 0 || b.Kind() == types.Uint8 {
			return
		}
		switch op {
		case token.LSS:
			out[fmt.Sprintf("<=%d", k-1)]++
		case token.LEQ:
			out[fmt.Sprintf("<=%d", k)]++
		case token.GTR:
			out[fmt.Sprintf(">=%d", k+1)]++
		case token.GEQ:
			out[fmt.Sprintf(">=%d", k)]++
		}
		if a, ok := counterStart(variable); ok {
			switch op {
			case token.LSS:
				out[fmt.Sprintf("iter<=%d", k-a)]++
			case token.LEQ:
				out[fmt.Sprintf("iter<=%d", k-a+1)]++
			case token.GEQ: // leaving the loop when counter >= k
				out[fmt.Sprintf("iter<=%d", k-a)]++
			case token.GTR:
				out[fmt.Sprintf("iter<=%d", k-a+1)]++
			}
		}
	})
	return out
}

// limitConstants: v is (a constant offset from) a phi some of whose edges are constants, or min/max of something and a constant.
func limitConstants(v ssa.Value) []int64 {
	b, k := linTerm(v)
	if ph, ok := b.(*ssa.Phi); ok {
		var out []int64
		for _, e := range ph.Edges {
			// non-constant edges are other bounds (limit := len(s); if limit > 63 { limit = 63 })
			if c, isC := constInt(e); isC {
				out = append(out, c+k)
			}
		}
		return out
	}
	if cl, ok := b.(*ssa.Call); ok {
		if bi, ok := cl.Call.Value.(*ssa.Builtin); ok && (bi.Name() == "min" || bi.Name() == "max") {
			var out []int64
			for _, a := range cl.Call.Args {
				if c, isC := constInt(a); isC {
					out = append(out, c+k)
				}
			}
			return out
		}
	}
	return nil
}

func ruleSpecBounds(c *Ctx) { ruleSpecBoundsFor(c, "C15") }

func ruleSpecBoundsFor(c *Ctx, prop string) {
	c.Rule("SPEC-BOUNDS", "The numeric limits of the line and inline recognisers equal the numbers in CommonMark 0.30: every comparison of an integer with a constant is normalised to a threshold (V<c ≡ holds up to c-1, V>c ≡ holds from c+1, …) and each documented threshold must occur in its function (heading level 6, 9 list digits, 999 label characters, scheme length 2–32, domain label 63, 6 hexadecimal / 7 decimal reference digits, three fence / break characters, three fence / break characters). Each limit is checked under the property whose statement names it (list, heading, fence, break, autolink and e-mail limits here; character-reference digits under C07, the label length under C12). Only the numbers are decided, not the recognisers' languages.")
	for _, sb := range specBounds {
		if sb.prop != prop {
			continue
		}
		fn := c.P.Func(sb.fn)
		key := fmt.Sprintf("%s:%s%d", sb.fn, sb.dir, sb.T)
		if fn == nil || fn.Blocks == nil {
			c.Undecided("SPEC-BOUNDS", key, token.NoPos, "recogniser "+sb.fn+" not resolved")
			continue
		}
		th := thresholdsOf(fn)
		got := th[fmt.Sprintf("%s%d", sb.dir, sb.T)]
		for _, a := range sb.alts {
			got += th[a]
		}
		if got < sb.count {
			// the two ends of one range may be measured from another origin (a count of characters instead of an
			// index that includes what precedes them): accepted when every limit of the same function and property
			// that shares a basis is present with the same shift
			if grp := specBoundGroups[sb.fn]; len(grp) > 1 {
				for s := int64(-3); s <= 3 && got < sb.count; s++ {
					if s == 0 {
						continue
					}
					all := true
					for _, o := range grp {
						if th[fmt.Sprintf("%s%d", o.dir, o.T+s)] < o.count {
							all = false
						}
					}
					if all {
						got = sb.count
					}
				}
			}
		}
		var all []string
		for k, n := range th {
			all = append(all, fmt.Sprintf("%s×%d", k, n))
		}
		sort.Strings(all)
		c.Check(got >= sb.count, "SPEC-BOUNDS", key, fn.Pos(), fmt.Sprintf("%s — expected %d comparison(s) with threshold %s%d, found %d (thresholds present: %s)", sb.src, sb.count, sb.dir, sb.T, got, strings.Join(all, " ")))
	}
}

// SPAN-SCAN: a loop that walks a Span walks all of it.
func ruleSpanScan(c *Ctx) {
	c.Rule("SPAN-SCAN", "In package commonmark, a counting loop whose upper bound is the End of a Span value starts at that same span's Start (not at Start plus a positive constant): the recognisers use such loops to validate every byte of a range (e.g. 'the info string after a backtick fence may not contain a backtick'), and a scan that starts one byte late accepts a line the specification rejects. Likewise a loop that counts down from a span's End-1 and reads the byte at the counter examines the byte at the span's Start before it stops at the start (the test is counter < Start, not counter <= Start).")
	p := c.P
	spanField := func(v ssa.Value) (base ssa.Value, field string, ok bool) {
		switch x := v.(type) {
		case *ssa.Field:
			if typeName(x.X.Type()) == "Span" {
				_, f := fieldInfo(x)
				return x.X, f, true
			}
		case *ssa.UnOp:
			if x.Op == token.MUL {
				if fa, isFA := x.X.(*ssa.FieldAddr); isFA {
					if tn, f, _ := fieldAddrInfo(fa); tn == "Span" {
						return fa.X, f, true
					}
				}
			}
		}
		return nil, "", false
	}
	sameBase := func(a, b ssa.Value) bool {
		if a == b {
			return true
		}
		// two loads of the same field path (no CSE)
		fa, ok1 := a.(*ssa.FieldAddr)
		fb, ok2 := b.(*ssa.FieldAddr)
		if ok1 && ok2 && fa.Field == fb.Field {
			return fa.X == fb.X
		}
		return sameValue(a, b)
	}
	n := 0
	for _, fn := range p.Funcs {
		if fn.Pkg != p.CMs {
			continue
		}
		for li, l := range naturalLoops(fn) {
			iff := blockIf(l.header)
			if iff == nil {
				continue
			}
			bo, ok := iff.Cond.(*ssa.BinOp)
			if !ok || bo.Op != token.LSS {
				continue
			}
			ph, ok := bo.X.(*ssa.Phi)
			if !ok || ph.Block() != l.header {
				continue
			}
			eb, ef, ok := spanField(bo.Y)
			if !ok || ef != "End" {
				continue
			}
			for i, pr := range l.header.Preds {
				if l.body[pr] {
					continue
				}
				init := ph.Edges[i]
				base, k := splitAdd(init)
				sb, sf, ok := spanField(base)
				if !ok || sf != "Start" || !sameBase(sb, eb) {
					continue
				}
				n++
				key := fmt.Sprintf("%s:loop#%d", shortFuncName(fn), li+1)
				c.Check(k == 0, "SPAN-SCAN", key, l.header.Instrs[0].Pos(), fmt.Sprintf("the loop over the span starts %d byte(s) after the span's start", k))
			}
		}
	}
	if n < 1 {
		c.Undecided("SPAN-SCAN", "instance-count", token.NoPos, "no loop over a Span found (parseCodeFence's info-string check is one)")
	}
	// downward scans: a counter that starts at S.End-1, steps down by one and is compared with S.Start of the same span,
	// while the loop reads the byte at counter+d: the lowest index read must be S.Start itself
	nd := 0
	for _, fn := range p.Funcs {
		if fn.Pkg != p.CMs {
			continue
		}
		for li, l := range naturalLoops(fn) {
			for _, in := range l.header.Instrs {
				ph, ok := in.(*ssa.Phi)
				if !ok {
					break
				}
				var eb ssa.Value
				down := false
				for i, pr := range l.header.Preds {
					e := ph.Edges[i]
					if l.body[pr] {
						if b, k := linTerm(e); b == ssa.Value(ph) && k == -1 {
							down = true
						}
						continue
					}
					base, k := linTerm(e)
					if sb, sf, ok := spanField(base); ok && sf == "End" && k == -1 {
						eb = sb
					}
				}
				if !down || eb == nil {
					continue
				}
				// the bound test and the reads
				for b := range l.body {
					iff := blockIf(b)
					if iff == nil {
						continue
					}
					bo, ok := iff.Cond.(*ssa.BinOp)
					if !ok || bo.X != ssa.Value(ph) {
						continue
					}
					sb, sf, ok := spanField(bo.Y)
					if !ok || sf != "Start" || !sameBase(sb, eb) {
						continue
					}
					strict := bo.Op == token.LEQ || bo.Op == token.GTR
					if !strict && bo.Op != token.LSS && bo.Op != token.GEQ {
						continue
					}
					// offsets of the reads line[ph+d] in the loop
					minD, have := int64(0), false
					for rb := range l.body {
						for _, x := range rb.Instrs {
							if ia, ok := x.(*ssa.IndexAddr); ok {
								if base, d := linTerm(ia.Index); base == ssa.Value(ph) {
									if !have || d < minD {
										minD, have = d, true
									}
								}
							}
						}
					}
					if !have {
						continue
					}
					nd++
					lowest := minD
					if strict {
						lowest++
					}
					key := fmt.Sprintf("%s:down-loop#%d", shortFuncName(fn), li+1)
					c.Check(lowest <= 0, "SPAN-SCAN", key, bo.Pos(), fmt.Sprintf("the scan runs down from the span's End-1 and stops once the counter is no longer above the span's Start: the lowest byte it examines is Start+%d, so the first byte of the span is never looked at before the scan concludes that it reached the start", lowest))
				}
			}
		}
	}
	c.Analysed["span_scans_downward"] = nd
}

// linTerm splits v into base + k for additions and subtractions of integer constants (either sign).
func linTerm(v ssa.Value) (ssa.Value, int64) {
	if bo, ok := v.(*ssa.BinOp); ok {
		switch bo.Op {
		case token.ADD:
			if k, ok := constInt(bo.Y); ok {
				b, k2 := linTerm(bo.X)
				return b, k + k2
			}
			if k, ok := constInt(bo.X); ok {
				b, k2 := linTerm(bo.Y)
				return b, k + k2
			}
		case token.SUB:
			if k, ok := constInt(bo.Y); ok {
				b, k2 := linTerm(bo.X)
				return b, k2 - k
			}
		}
	}
	return v, 0
}

func init() {
	addControls(
		Control{Name: "atx-closing-hash-scan-stops-before-first-byte", Props: []string{"C15", "C06", "C03"}, File: "blocks.go",
			Old: "\t\tif i < h.content.Start {\n\t\t\th.content.End = h.content.Start\n\t\t\tbreak\n\t\t}", New: "\t\tif i <= h.content.Start {\n\t\t\th.content.End = h.content.Start\n\t\t\tbreak\n\t\t}", Expect: "SPAN-SCAN/parseATXHeading:down-loop",
			Why: "the defect repaired by /repo 32a7929: '# b##' gave an empty heading"},
	)
}
