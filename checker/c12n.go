package main

// C12 / C16 — NULVIEW: the byte reader's view of padded NUL bytes is U+FFFD, in phase.
//
// A NUL of the input occupies three zero bytes in a block's buffer until fillNulls writes U+FFFD over them. Reference
// definitions are extracted (and their labels normalised) before that, through inlineByteReader, whose current()
// presents the zero byte at r.pos as nullReplacementString[r.virtualPos]. For that view to be U+FFFD the phase field has
// to satisfy, whenever the reader stands on a zero byte,
//
//	I1:  virtualPos == (offset of pos inside its run of zero bytes) mod 3
//
// The rule checks that every step of the reader that moves the position forward by one byte and reports success
// preserves I1, or preserves the stronger I2 = I1 ∧ (source[pos] != 0 → virtualPos == 0); a reader may establish the
// phase when it enters a run (I1) or clear it when it leaves one (I2). Steps that move the position anywhere else must
// recompute the phase with a module function. The step is decided by enumerating the finite abstraction
// (source[pos] is zero or not, source[pos+1] is zero or not, phase 0..2); conditions that do not depend on these
// are explored both ways.

import (
	"fmt"
	"go/token"
	"go/types"
	"sort"
	"strings"

	"golang.org/x/tools/go/ssa"
)

type nulReader struct {
	typ            *types.Named
	src, pos, phas int // field indices
	period         int64
}

// findNulReader finds the struct whose method indexes the NUL replacement string by one of its fields while testing
// source[pos] of the same receiver.
func findNulReader(p *Program) (*nulReader, token.Pos) {
	var out *nulReader
	var at token.Pos
	for _, fn := range p.Funcs {
		if fn.Blocks == nil || len(fn.Params) == 0 {
			continue
		}
		recv := fn.Params[0]
		pt, ok := recv.Type().Underlying().(*types.Pointer)
		if !ok {
			continue
		}
		named, ok := pt.Elem().(*types.Named)
		if !ok {
			continue
		}
		eachInstr(fn, func(in ssa.Instruction) {
			var lkX, lkIndex ssa.Value
			switch lk := in.(type) {
			case *ssa.Lookup:
				lkX, lkIndex = lk.X, lk.Index
			case *ssa.Index:
				lkX, lkIndex = lk.X, lk.Index
			default:
				return
			}
			s, ok := constString(lkX)
			if !ok || s != "\uFFFD" {
				return
			}
			ld, ok := lkIndex.(*ssa.UnOp)
			if !ok || ld.Op != token.MUL {
				return
			}
			fa, ok := ld.X.(*ssa.FieldAddr)
			if !ok || fa.X != ssa.Value(recv) {
				return
			}
			r := &nulReader{typ: named, phas: fa.Field, src: -1, pos: -1, period: int64(len(s))}
			// source[pos] of the same receiver in the same function
			eachInstr(fn, func(in2 ssa.Instruction) {
				ia, ok := in2.(*ssa.IndexAddr)
				if !ok {
					return
				}
				sl, ok1 := ia.X.(*ssa.UnOp)
				ix, ok2 := ia.Index.(*ssa.UnOp)
				if !ok1 || !ok2 || sl.Op != token.MUL || ix.Op != token.MUL {
					return
				}
				fs, ok1 := sl.X.(*ssa.FieldAddr)
				fi, ok2 := ix.X.(*ssa.FieldAddr)
				if ok1 && ok2 && fs.X == ssa.Value(recv) && fi.X == ssa.Value(recv) {
					r.src, r.pos = fs.Field, fi.Field
				}
			})
			if r.src >= 0 && r.pos >= 0 && out == nil {
				out = r
				at = in.Pos()
			}
		})
	}
	return out, at
}

func ruleNulView(c *Ctx) { ruleNulViewMode(c, false) }

// ruleNulRange is the totality half (C04): whatever the phase discipline, a step never leaves the phase outside the replacement string.
func ruleNulRange(c *Ctx) { ruleNulViewMode(c, true) }

func ruleNulViewMode(c *Ctx, rangeOnly bool) {
	if rangeOnly {
		c.Rule("NUL-RANGE", "The field that indexes the NUL replacement string in the byte reader stays inside the string: every one-byte step that reports success, started with the field in 0..2, ends with it in 0..2 (or recomputed by a module function), over the finite abstraction (zero/non-zero at pos and pos+1, phase 0..2). An increment without the wrap makes current() index past the string on the second of two adjacent NULs.")
	} else {
		c.Rule("NULVIEW", "The reader through which labels, destinations and titles are scanned presents each padded NUL (three zero bytes) as the three bytes of U+FFFD: the field that indexes the replacement string is, whenever the reader stands on a zero byte, the offset of the position inside its run of zero bytes modulo 3. Every method step that advances the position by one byte and reports success preserves that invariant (entering a run sets the phase to 0, moving inside a run adds one modulo 3), or preserves the stronger variant in which the phase is 0 outside runs; every step that moves the position elsewhere recomputes the phase by a module function. Decided per step over the finite abstraction (zero/non-zero at pos and pos+1, phase 0..2). Otherwise a label with two separate NULs is normalised to bytes that are not UTF-8, matches no use written with U+FFFD, and differs from the label of the same block parsed alone.")
	}
	p := c.P
	rd, at := findNulReader(p)
	if rd == nil {
		c.Assume("NULVIEW: no reader indexing the NUL replacement string by a field was found; the rule recognises nothing and decides nothing")
		return
	}
	tname := rd.typ.Obj().Name()
	st0 := rd.typ.Underlying().(*types.Struct)
	ruleName := "NULVIEW"
	if rangeOnly {
		ruleName = "NUL-RANGE"
	}
	c.OK(ruleName, tname+":fields", at, fmt.Sprintf("reader %s: source=%s position=%s phase=%s period=%d", tname, st0.Field(rd.src).Name(), st0.Field(rd.pos).Name(), st0.Field(rd.phas).Name(), rd.period))
	e := newBSET(p)
	steps := 0
	for _, fn := range p.Funcs {
		if fn.Blocks == nil || len(fn.Params) == 0 {
			continue
		}
		recv := fn.Params[0]
		pt, ok := recv.Type().Underlying().(*types.Pointer)
		if !ok || pt.Elem() != types.Type(rd.typ) {
			continue
		}
		storesPos := false
		eachInstr(fn, func(in ssa.Instruction) {
			if s, ok := in.(*ssa.Store); ok {
				if fa, ok := s.Addr.(*ssa.FieldAddr); ok && fa.X == ssa.Value(recv) && fa.Field == rd.pos {
					storesPos = true
				}
			}
		})
		if !storesPos {
			continue
		}
		steps++
		checkNulStep(c, e, rd, fn, recv, rangeOnly)
	}
	c.Analysed["nulview_step_functions"] = steps
}

func checkNulStep(c *Ctx, e *bsetEngine, rd *nulReader, fn *ssa.Function, recv *ssa.Parameter, rangeOnly bool) {
	var rangeBad []string
	fieldOf := func(addr ssa.Value) int {
		if fa, ok := addr.(*ssa.FieldAddr); ok && fa.X == ssa.Value(recv) {
			return fa.Field
		}
		return -1
	}
	type abs struct{ a, b, v int64 }
	var fails1, fails2 []string // violations of I1 / I2
	var jumpBad []string
	var jumpPos token.Pos
	nPaths := 0
	for _, a := range []int64{0, 'x'} {
		for _, b := range []int64{0, 'x'} {
			for v := int64(0); v < rd.period; v++ {
				d := abs{a, b, v}
				st := &evalState{e: e, fn: fn, from: make([]int, len(fn.Blocks))}
				for i := range st.from {
					st.from[i] = -2
				}
				curF := d.v
				posOff := int64(0) // r.pos == old pos + posOff; -1 once it was set to something else
				loadF := map[ssa.Value]int64{}
				loadP := map[ssa.Value]int64{}
				st.symVal = func(x ssa.Value) (int64, bool) {
					ld, ok := x.(*ssa.UnOp)
					if !ok || ld.Op != token.MUL {
						return 0, false
					}
					if fieldOf(ld.X) == rd.phas {
						if v, ok := loadF[x]; ok {
							return v, true
						}
						return curF, true
					}
					ia, ok := ld.X.(*ssa.IndexAddr)
					if !ok {
						return 0, false
					}
					sl, ok := ia.X.(*ssa.UnOp)
					if !ok || sl.Op != token.MUL || fieldOf(sl.X) != rd.src {
						return 0, false
					}
					off := int64(0)
					idx := ia.Index
					if bo, ok := idx.(*ssa.BinOp); ok && bo.Op == token.ADD {
						if k, ok := constInt(bo.Y); ok {
							off, idx = k, bo.X
						} else if k, ok := constInt(bo.X); ok {
							off, idx = k, bo.Y
						}
					}
					il, ok := idx.(*ssa.UnOp)
					if !ok || il.Op != token.MUL || fieldOf(il.X) != rd.pos {
						return 0, false
					}
					base, ok := loadP[idx]
					if !ok {
						base = posOff
					}
					if base < 0 {
						return 0, false
					}
					switch base + off {
					case 0:
						return d.a, true
					case 1:
						return d.b, true
					}
					return 0, false
				}
				visits := make([]int, len(fn.Blocks))
				var dfs func(b *ssa.BasicBlock)
				dfs = func(b *ssa.BasicBlock) {
					if visits[b.Index] >= 1 {
						return
					}
					visits[b.Index]++
					savedF, savedOff := curF, posOff
					var snapF, snapP []ssa.Value
					phaseRecomputed := false
					defer func() {
						visits[b.Index]--
						curF, posOff = savedF, savedOff
						for _, k := range snapF {
							delete(loadF, k)
						}
						for _, k := range snapP {
							delete(loadP, k)
						}
					}()
					_ = phaseRecomputed
					for _, in := range b.Instrs {
						switch x := in.(type) {
						case *ssa.UnOp:
							if x.Op == token.MUL {
								switch fieldOf(x.X) {
								case rd.phas:
									if _, ok := loadF[x]; !ok {
										loadF[x] = curF
										snapF = append(snapF, x)
									}
								case rd.pos:
									if _, ok := loadP[x]; !ok {
										loadP[x] = posOff
										snapP = append(snapP, x)
									}
								}
							}
						case *ssa.Store:
							switch fieldOf(x.Addr) {
							case rd.phas:
								st.why = ""
								if nv, ok := st.eval(x.Val); ok {
									curF = nv
								} else if call, ok := x.Val.(*ssa.Call); ok && call.Call.StaticCallee() != nil && c.P.InModule(call.Call.StaticCallee()) {
									curF = -2 // recomputed by a module function
								} else {
									curF = -3 // unknown
								}
							case rd.pos:
								// new position: old + k ?
								newOff := int64(-1)
								if bo, ok := x.Val.(*ssa.BinOp); ok && bo.Op == token.ADD {
									var k int64
									var base ssa.Value
									if kk, ok := constInt(bo.Y); ok {
										k, base = kk, bo.X
									} else if kk, ok := constInt(bo.X); ok {
										k, base = kk, bo.Y
									}
									if base != nil {
										if off, ok := loadP[base]; ok && off >= 0 {
											newOff = off + k
										}
									}
								}
								posOff = newOff
								if newOff < 0 {
									curF = -4 // stale relative to the new position until recomputed
									jumpPos = x.Pos()
								}
							}
						}
					}
					switch t := b.Instrs[len(b.Instrs)-1].(type) {
					case *ssa.Return:
						nPaths++
						// only successful steps leave the reader on a byte that will be read
						success := true
						if len(t.Results) == 1 {
							if k, ok := t.Results[0].(*ssa.Const); ok && k.Value != nil && k.Value.String() == "false" {
								success = false
							}
						}
						if !success {
							return
						}
						desc := fmt.Sprintf("source[pos]%s0 source[pos+1]%s0 phase=%d", map[bool]string{true: "==", false: "!="}[d.a == 0], map[bool]string{true: "==", false: "!="}[d.b == 0], d.v)
						switch {
						case posOff == 0:
							// position unchanged (a virtual step): nothing to show
						case posOff == 1:
							if curF == -2 {
								return
							}
							if curF >= rd.period || (curF < 0 && curF != -2) {
								rangeBad = append(rangeBad, fmt.Sprintf("%s: phase becomes %s", desc, phaseStr(curF)))
							}
							// preconditions: I1 needs a!=0 or v correct (any v is "correct" in the abstraction); I2 additionally a!=0 → v==0
							pre2 := d.a == 0 || d.v == 0
							want1ok, want2ok := true, true
							if d.b == 0 {
								want := int64(0)
								if d.a == 0 {
									want = (d.v + 1) % rd.period
								}
								want1ok = curF == want
								want2ok = curF == want
							} else {
								want2ok = curF == 0
							}
							if !want1ok {
								fails1 = append(fails1, fmt.Sprintf("%s: phase becomes %s", desc, phaseStr(curF)))
							}
							if pre2 && !want2ok {
								fails2 = append(fails2, fmt.Sprintf("%s: phase becomes %s", desc, phaseStr(curF)))
							}
						default:
							if curF != -2 {
								jumpBad = append(jumpBad, fmt.Sprintf("position set to a new place and the phase is %s", phaseStr(curF)))
							}
						}
					case *ssa.If:
						succs := b.Succs
						st.why = ""
						if v, ok := st.eval(t.Cond); ok {
							if v != 0 {
								succs = b.Succs[:1]
							} else {
								succs = b.Succs[1:]
							}
						}
						for _, s := range succs {
							prev := st.from[s.Index]
							st.from[s.Index] = b.Index
							dfs(s)
							st.from[s.Index] = prev
						}
					case *ssa.Jump:
						s := b.Succs[0]
						prev := st.from[s.Index]
						st.from[s.Index] = b.Index
						dfs(s)
						st.from[s.Index] = prev
					}
				}
				st.from[0] = -1
				dfs(fn.Blocks[0])
			}
		}
	}
	uniq := func(xs []string) []string {
		m := map[string]bool{}
		var out []string
		for _, x := range xs {
			if !m[x] {
				m[x] = true
				out = append(out, x)
			}
		}
		sort.Strings(out)
		return out
	}
	fails1, fails2, jumpBad = uniq(fails1), uniq(fails2), uniq(jumpBad)
	key := shortFuncName(fn) + ":step"
	if rangeOnly {
		rangeBad = uniq(rangeBad)
		c.Check(len(rangeBad) == 0, "NUL-RANGE", key, fn.Pos(), fmt.Sprintf("%d paths over 12 abstract states; the phase leaves 0..%d: %s", nPaths, rd.period-1, strings.Join(rangeBad, "; ")))
		return
	}
	if len(fails1) == 0 || len(fails2) == 0 {
		which := "I1 (phase set on entering a run)"
		if len(fails1) != 0 {
			which = "I2 (phase cleared on leaving a run)"
		}
		c.OK("NULVIEW", key, fn.Pos(), fmt.Sprintf("%d paths over 12 abstract states; one-byte steps preserve %s", nPaths, which))
	} else {
		c.Viol("NULVIEW", key, fn.Pos(), "a one-byte step leaves the replacement phase wrong for the next zero byte: "+strings.Join(fails1, "; "))
	}
	if len(jumpBad) > 0 {
		if !jumpPos.IsValid() {
			jumpPos = fn.Pos()
		}
		c.Viol("NULVIEW", shortFuncName(fn)+":jump", jumpPos, strings.Join(jumpBad, "; "))
	} else if jumpPos.IsValid() {
		c.OK("NULVIEW", shortFuncName(fn)+":jump", jumpPos, "every move to a new place recomputes the phase with a module function")
	}
}

func phaseStr(v int64) string {
	switch v {
	case -2:
		return "recomputed"
	case -3:
		return "unknown"
	case -4:
		return "left as it was"
	}
	return fmt.Sprint(v)
}
