package main

// C06 — TAB-PARTIAL: only a tab that block structure has partly consumed is replaced by spaces.

import (
	"fmt"
	"go/token"
	"sort"
	"strings"

	"golang.org/x/tools/go/ssa"
)

func ruleTabPartial(c *Ctx) {
	c.Rule("TAB-PARTIAL", "CommonMark leaves tabs in content alone; only where block structure consumes part of a tab's columns (a block quote marker's optional space, a list item's content column) the remaining columns behave as spaces. When a line's text is added to a leaf block (addLineText) the tab under the cursor is replaced by an indent node of tabRemaining columns — which is right only if some of its columns were consumed. tabRemaining < 4 does not say that: a whole tab that does not start at a tab stop is narrower than 4 as well ('> ' puts the next byte at column 2, a tab there is 2 wide), and cursor column and remaining width are the same for 'two of four columns consumed' and 'nothing consumed, starts at column 2'. So the condition in front of that indent node reads a field of the line parser that ConsumeIndent writes on the branch that consumes part of a tab without moving the cursor index (other than tabRemaining and col themselves). Otherwise '> ```⏎> ⇥foo' renders '␠␠foo' instead of the tab: code block contents do not come out verbatim.")
	p := c.P
	fn := p.Func("addLineText")
	ci := p.Method("lineParser", "ConsumeIndent")
	if !c.NeedFunc("TAB-PARTIAL", fn, "addLineText") || !c.NeedFunc("TAB-PARTIAL", ci, "(*lineParser).ConsumeIndent") {
		return
	}
	// fields written on ConsumeIndent's partial branch: blocks that store tabRemaining := tabRemaining - x and return without storing i
	partial := map[string]bool{}
	for _, b := range ci.Blocks {
		subs, storesI := false, false
		var flds []string
		for _, in := range b.Instrs {
			st, ok := in.(*ssa.Store)
			if !ok {
				continue
			}
			fa, ok := st.Addr.(*ssa.FieldAddr)
			if !ok {
				continue
			}
			tn, f, _ := fieldAddrInfo(fa)
			if tn != "lineParser" {
				continue
			}
			flds = append(flds, f)
			if f == "i" {
				storesI = true
			}
			if f == "tabRemaining" {
				if bo, ok := st.Val.(*ssa.BinOp); ok && bo.Op == token.SUB {
					subs = true
				}
			}
		}
		if subs && !storesI {
			for _, f := range flds {
				partial[f] = true
			}
		}
	}
	if len(partial) == 0 {
		c.Undecided("TAB-PARTIAL", "ConsumeIndent:partial-branch", ci.Pos(), "no branch of ConsumeIndent takes columns off tabRemaining without moving the cursor index")
		return
	}
	indK, _ := kindValue(p, "InlineKind", "IndentKind")
	n := 0
	eachInstr(fn, func(in ssa.Instruction) {
		al, ok := in.(*ssa.Alloc)
		if !ok || typeName(deref(al.Type())) != "Inline" {
			return
		}
		ks := allocKindValues(al)
		if len(ks) != 1 {
			return
		}
		if k, ok := constInt(ks[0]); !ok || k != indK {
			return
		}
		n++
		// lineParser fields read by the dominating conditions
		read := map[string]bool{}
		for id := al.Block().Idom(); id != nil; id = id.Idom() {
			iff := blockIf(id)
			if iff == nil || (edgeDominates(id, 0, al.Block()) == edgeDominates(id, 1, al.Block())) {
				continue
			}
			seen := map[ssa.Value]bool{}
			var walk func(v ssa.Value, d int)
			walk = func(v ssa.Value, d int) {
				if v == nil || seen[v] || d > 8 {
					return
				}
				seen[v] = true
				if u, ok := v.(*ssa.UnOp); ok && u.Op == token.MUL {
					if fa, ok := u.X.(*ssa.FieldAddr); ok {
						if tn, f, _ := fieldAddrInfo(fa); tn == "lineParser" {
							read[f] = true
						}
					}
				}
				if x, ok := v.(ssa.Instruction); ok {
					for _, op := range x.Operands(nil) {
						if op != nil && *op != nil {
							walk(*op, d+1)
						}
					}
				}
			}
			walk(iff.Cond, 0)
		}
		var rs, ws []string
		good := false
		for f := range read {
			rs = append(rs, f)
			if partial[f] && f != "tabRemaining" && f != "col" {
				good = true
			}
		}
		for f := range partial {
			ws = append(ws, f)
		}
		sort.Strings(rs)
		sort.Strings(ws)
		c.Check(good, "TAB-PARTIAL", fmt.Sprintf("addLineText:indent-node#%d", n), al.Pos(), fmt.Sprintf("the condition reads the line parser's fields {%s}; partial consumption of a tab writes {%s}: only the tab's remaining width and the column are shared, and those do not tell a partly consumed tab from a whole one off a tab stop", strings.Join(rs, ","), strings.Join(ws, ",")))
	})
	if n == 0 {
		c.OK("TAB-PARTIAL", "addLineText:none", fn.Pos(), "addLineText replaces no tab by an indent node")
	}
}

func init() {
	addControls(
		Control{Name: "whole-tab-off-a-tab-stop-taken-for-partial", Props: []string{"C06"}, File: "parse.go",
			Old: "p.line[p.i] == '\\t' && p.tabPartial && p.tabRemaining > 0 {", New: "p.line[p.i] == '\\t' && p.tabRemaining > 0 && p.tabRemaining < tabStopSize {", Expect: "TAB-PARTIAL/addLineText:indent-node",
			Why: "the repaired defect: '> ```\\n> \\tfoo' rendered two spaces instead of the tab"},
	)
}
