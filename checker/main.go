package main

import (
	"flag"
	"fmt"
	"os"
	"path/filepath"
	"runtime/debug"
	"sort"
	"strconv"
	"strings"
	"time"
)

// A property check instantiates rules on the loaded program.
type propFunc func(c *Ctx)

var props = map[string]propFunc{}

func main() {
	repo := flag.String("repo", "/repo", "repository to analyse")
	verif := flag.String("verif", "/verif", "verification directory (evidence, known findings)")
	prop := flag.String("property", "", "property id (C01..C20) or 'all'")
	tier := flag.String("tier", "quick", "quick|thorough")
	only := flag.String("only", "", "re-check only obligations whose key has this prefix (no evidence written)")
	selftest := flag.Bool("selftest", false, "run fixtures and in-situ controls only")
	dump := flag.String("dump", "", "debug: print the SSA of the named function (as the checker sees it)")
	flag.Parse()
	loadJSONControls(*verif)
	if t := os.Getenv("VERIF_TIER"); t != "" && *tier == "" {
		*tier = t
	}
	seed := 0
	if s := os.Getenv("VERIF_SEED"); s != "" {
		seed, _ = strconv.Atoi(s)
	}
	if *dump != "" {
		p, err := Load(LoadOpts{Repo: *repo})
		if err != nil {
			fmt.Println(err)
			os.Exit(2)
		}
		for _, f := range p.Funcs {
			if shortFuncName(f) == *dump {
				f.WriteTo(os.Stdout)
			}
		}
		os.Exit(0)
	}
	if *selftest {
		os.Exit(runSelfTest(*repo, *verif, flag.Args()))
	}
	ids := []string{*prop}
	if *prop == "all" {
		ids = nil
		for k := range props {
			ids = append(ids, k)
		}
		sort.Strings(ids)
	}
	rc := 0
	for _, id := range ids {
		if r := runProperty(*repo, *verif, id, *tier, *only, seed); r > rc {
			rc = r
		}
	}
	os.Exit(rc)
}

func runProperty(repo, verif, id, tier, only string, seed int) (rc int) {
	start := time.Now()
	pf, ok := props[id]
	if !ok {
		fmt.Printf("unknown or unclaimed property %q\n", id)
		return 2
	}
	// replay files of earlier runs of this property are stale
	if only == "" {
		if old, _ := filepath.Glob(filepath.Join(verif, "evidence", "violations", id+"-*.json")); len(old) > 0 {
			for _, f := range old {
				os.Remove(f)
			}
		}
	}
	kf, err := loadKnown(filepath.Join(verif, "known_findings.json"))
	if err != nil {
		fmt.Println("known_findings.json unreadable:", err)
		return failHard(verif, id, "known-findings file unreadable: "+err.Error())
	}
	defer func() {
		if r := recover(); r != nil {
			fmt.Printf("checker panic: %v\n%s\n", r, debug.Stack())
			rc = failHard(verif, id, fmt.Sprintf("checker panic: %v", r))
		}
	}()
	configs := []LoadOpts{{Repo: repo}}
	if tier == "thorough" {
		configs = append(configs, LoadOpts{Repo: repo, GOARCH: "386"}, LoadOpts{Repo: repo, Tags: "verif"})
	}
	var main *Ctx
	extra := map[string]interface{}{}
	var cfgNames []string
	for i, lo := range configs {
		p, err := Load(lo)
		if err != nil {
			fmt.Println("load failure:", err)
			return failHard(verif, id, "load failure: "+err.Error())
		}
		c := NewCtx(p, id, tier)
		c.Only = only
		pf(c)
		name := "default"
		if lo.GOARCH != "" {
			name = "GOARCH=" + lo.GOARCH
		}
		if lo.Tags != "" {
			name = "tags=" + lo.Tags
		}
		cfgNames = append(cfgNames, name)
		if i == 0 {
			main = c
			continue
		}
		// merge: additional configurations contribute obligations under a prefixed construct
		for _, o := range c.Obs {
			if o.Status != "ok" {
				o.Construct = name + ":" + o.Construct
				main.Obs = append(main.Obs, o)
			}
		}
		extra["obligations_"+name] = len(c.Obs)
	}
	extra["build_configurations"] = cfgNames
	if only != "" {
		var keep []Ob
		for _, o := range main.Obs {
			if strings.HasPrefix(o.Key(), only) {
				keep = append(keep, o)
			}
		}
		main.Obs = keep
	}
	if tier == "thorough" {
		res := runControls(repo, id)
		extra["controls"] = res
		fired, total, silent, ntotal, skipped := 0, 0, 0, 0, 0
		for _, r := range res {
			if r.Skipped {
				skipped++
				continue
			}
			if r.Negative {
				ntotal++
				if r.Pass {
					silent++
				}
			} else {
				total++
				if r.Pass {
					fired++
				}
			}
			if !r.Pass {
				main.Undecided("SELFTEST", "control:"+r.Name, 0, "checker self-validation failed: "+r.Detail)
			}
		}
		extra["controls_fired"] = fmt.Sprintf("%d/%d", fired, total)
		extra["negative_controls_silent"] = fmt.Sprintf("%d/%d", silent, ntotal)
		extra["controls_skipped"] = skipped
	}
	return finish(main, verif, kf, start, seed, extra)
}

// failHard writes a violation for infrastructure failures: undecidable is a failure.
func failHard(verif, id, msg string) int {
	vdir := filepath.Join(verif, "evidence", "violations")
	os.MkdirAll(vdir, 0o755)
	rp := filepath.Join(vdir, id+"-infrastructure.json")
	os.WriteFile(rp, []byte(fmt.Sprintf("{\"property\":%q,\"status\":\"undecided\",\"detail\":%q}\n", id, msg)), 0o644)
	fmt.Printf("VIOLATION property=%s replay=%s\n", id, rp)
	return 1
}
