#!/bin/bash
# usage: neg_ingest.sh <dir-with-numbered-subdirs> <prefix>
# Stores behaviour-preserving rewrites written by a sub-agent (<dir>/<k>/patch.diff + notes.md with a name: line) as
# /verif/negatives/<prefix>-<name>/ and evaluates each with neg_eval.sh (any ALARM is a false alarm of the checker).
set -u
SRC="$1"; PFX="$2"
for k in "$SRC"/*/; do
  [ -f "$k/patch.diff" ] || continue
  NAME=$(grep -m1 -i '^name:' "$k/notes.md" 2>/dev/null | sed -E 's/^[^:]*: *//; s/[^A-Za-z0-9_-]+/-/g; s/-+$//')
  [ -z "$NAME" ] && NAME="rewrite-$(basename "$k")"
  D="/verif/negatives/$PFX-$NAME"; mkdir -p "$D"; cp "$k/patch.diff" "$D/patch.diff"; cp "$k/notes.md" "$D/notes.md" 2>/dev/null
  /verif/neg_eval.sh "$D" 2>/dev/null | cut -c1-900
done
