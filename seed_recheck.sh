#!/bin/bash
# Re-runs every stored seeded change against the current checks (in scratch worktrees, /repo untouched; see seed_par.sh),
# and refreshes the detection fields of its meta.json. usage: seed_recheck.sh [jobs] [name-glob]
set -u
cd /verif
J="${1:-8}"; G="${2:-*}"
./setup.sh >/dev/null || exit 2
# snapshot of the checker binary: a rebuild while this runs must not change what is evaluated
export CMVERIFY=$(mktemp /tmp/cmverify.XXXXXX); cp .bin/cmverify "$CMVERIFY"; chmod +x "$CMVERIFY"; # a build cache of its own, removed at the end: hundreds of scratch worktree builds grow the shared cache by tens of GB
export GOCACHE=$(mktemp -d /tmp/gocache.XXXXXX)
trap 'rm -f "$CMVERIFY"; rm -rf "$GOCACHE"' EXIT
ls -d seeded/$G/ | xargs -P "$J" -I{} sh -c './seed_par.sh {} 2>/dev/null | tail -1' > /tmp/seed_recheck.jsonl
python3 - <<'PY'
import json,os,subprocess
head=subprocess.check_output(['git','-C','/repo','rev-parse','--short','HEAD']).decode().strip()
n=det=0; missed=[]; bad=[]
for l in sorted(open('/tmp/seed_recheck.jsonl')):
    try: r=json.loads(l)
    except Exception: continue
    d=r['dir']; mp=d+'/meta.json'
    if 'error' in r: bad.append((os.path.basename(d),r['error'])); continue
    m=json.load(open(mp))
    m['checks_that_report_it']=r['caught_by']; m['reports']=r['reports']; m['detected']=bool(r['caught_by'])
    m['last_rechecked_at_repo_head']=head; m['still_confirmed']=r['confirmed']
    json.dump(m,open(mp,'w'),indent=1)
    n+=1; det+=bool(r['caught_by'])
    if not r['caught_by']: missed.append(m['name'])
    if not r['confirmed']: bad.append((m['name'],'no longer confirmed: suite=%s demo_with=%s demo_clean=%s'%(r['suite_failures_with_change'],r['demo_rc_with_change'],r['demo_rc_clean'])))
print('%d/%d detected'%(det,n)); print('missed:',missed); print('problems:',bad)
PY
