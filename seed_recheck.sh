#!/bin/bash
# Re-runs every stored seeded change against the current checks and refreshes the detection fields of its meta.json.
# (Applies each patch to /repo, runs the quick checks, reverts.)
set -u
cd /verif
for d in seeded/*/; do
  name=$(basename "$d")
  cd /repo
  if [ -n "$(git status --porcelain)" ]; then echo "repo dirty"; exit 2; fi
  if ! git apply --check "/verif/$d/patch.diff" 2>/dev/null; then echo "$name: PATCH NO LONGER APPLIES"; cd /verif; continue; fi
  git apply "/verif/$d/patch.diff"
  FIRED=""
  for p in C01 C04 C05 C07 C08 C10 C11 C12 C14 C15 C17 C18 C19 C20; do
    OUT=$(cd /verif && ./run.sh $p quick 2>&1); RC=$?
    if [ $RC -ne 0 ]; then FIRED="$FIRED $p:[$(echo "$OUT" | grep -E '^(VIOLATION|UNDECIDED):' | sed -E 's/^(VIOLATION|UNDECIDED): ([^ ]+) (.*) at .*/\2\/\3/' | cut -c1-80 | tr '\n' ';')]"; fi
  done
  git checkout -- . ; git clean -fdq
  cd /verif
  python3 - "$d" "$FIRED" <<'PY'
import json,sys,re
d,fired=sys.argv[1],sys.argv[2]
m=json.load(open(d+'meta.json'))
caught=sorted(set(re.findall(r'(C\d\d):\[',fired)))
m['checks_that_report_it']=caught; m['reports']=fired.strip(); m['detected']=bool(caught)
json.dump(m,open(d+'meta.json','w'),indent=1)
print(m['name'],'->',caught if caught else 'MISSED')
PY
done
