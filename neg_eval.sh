#!/bin/bash
# usage: neg_eval.sh <dir with patch.diff [notes.md]>
# Applies a behaviour-preserving change to a scratch worktree of /repo HEAD, confirms the pinned suite passes,
# runs every quick check against it and prints the alarms (any alarm is a false alarm of the checker).
set -u
export GOFLAGS=-mod=mod GOPROXY=off GOSUMDB=off GOTOOLCHAIN=local
unset GOWORK
D="$(cd "$1" && pwd)"
WT=$(mktemp -d /tmp/ne.XXXXXX); SV=$(mktemp -d /tmp/nv.XXXXXX)
cleanup() { git -C /repo worktree remove --force "$WT" >/dev/null 2>&1; rm -rf "$WT" "$SV"; git -C /repo worktree prune; }
trap cleanup EXIT
rmdir "$WT"; git -C /repo worktree add --detach "$WT" HEAD -q || exit 2
cp /verif/known_findings.json "$SV/"; mkdir -p "$SV/evidence"
cd "$WT"
if ! git apply "$D/patch.diff" 2>/dev/null; then
  if ! patch -p1 -F3 -s < "$D/patch.diff" >/dev/null 2>&1; then echo "{\"dir\":\"$D\",\"error\":\"patch does not apply\"}"; exit 2; fi
  find . -name '*.orig' -delete
fi
SUITE=$(go test -vet=off -count=1 ./... 2>&1 | grep -c -E "^(FAIL|---  *FAIL)")
FIRED=""
for p in C01 C02 C03 C04 C05 C06 C07 C08 C09 C10 C11 C12 C13 C14 C15 C16 C17 C18 C19 C20; do
  OUT=$("${CMVERIFY:-/verif/.bin/cmverify}" -repo "$WT" -verif "$SV" -property $p -tier quick 2>&1); RC=$?
  if [ $RC -ne 0 ]; then FIRED="$FIRED\n  $p: $(echo "$OUT" | grep -E '^(VIOLATION|UNDECIDED):' | cut -c1-400 | tr '\n' '|')"; fi
done
NAME=$(grep -m1 -i '^name:' "$D/notes.md" 2>/dev/null | sed -E 's/^[^:]*: *//')
if [ -z "$FIRED" ]; then echo "SILENT  $D ($NAME) suite_failures=$SUITE"; else echo -e "ALARM   $D ($NAME) suite_failures=$SUITE$FIRED"; fi
