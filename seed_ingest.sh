#!/bin/bash
# usage: seed_ingest.sh <property> <dir-with-numbered-subdirs> [round]
# For every <dir>/<k>/ holding patch.diff, demo_test.go, notes.md (name:/demodir:/race:/needs: header lines, as the
# sub-agent prompt asks for): confirm it with seed_par.sh in a scratch worktree and, if confirmed, store it as
# /verif/seeded/<property>-<name>/ with meta.json. Unconfirmed ones are reported and not stored.
set -u
PROP="$1"; SRC="$2"; ROUND="${3:-3}"
for k in "$SRC"/*/; do
  [ -f "$k/patch.diff" ] && [ -f "$k/demo_test.go" ] && [ -f "$k/notes.md" ] || { echo "$k: incomplete"; continue; }
  NAME=$(grep -m1 -i '^name:' "$k/notes.md" | sed -E 's/^[^:]*: *//; s/[^A-Za-z0-9_-]+/-/g; s/-+$//')
  NEEDS=$(grep -m1 -i '^needs:' "$k/notes.md" | sed -E 's/^[^:]*: *//')
  [ -z "$NAME" ] && NAME="change-$(basename "$k")"
  FULL="$PROP-$NAME"
  if [ -d "/verif/seeded/$FULL" ]; then FULL="$FULL-r$ROUND"; fi
  R=$(/verif/seed_par.sh "$k" 2>/dev/null | tail -1)
  echo "$FULL: $R"
  python3 - "$FULL" "$PROP" "$NEEDS" "$k" "$ROUND" "$R" <<'PY'
import json,sys,subprocess,shutil,os
full,prop,needs,src,rnd,r=sys.argv[1:7]
try: r=json.loads(r)
except Exception: print('  -> evaluator failed'); sys.exit(0)
if not r.get('confirmed'): print('  -> NOT CONFIRMED, not stored'); sys.exit(0)
d='/verif/seeded/'+full; os.makedirs(d,exist_ok=True)
shutil.copy(src+'/patch.diff',d+'/patch.diff'); shutil.copy(src+'/demo_test.go',d+'/demo_test.go.txt'); shutil.copy(src+'/notes.md',d+'/notes.md')
head=subprocess.check_output(['git','-C','/repo','rev-parse','--short','HEAD']).decode().strip()
race='-race' if r['race'] else ''
meta={"name":full,"breaks_property":prop,"round":int(rnd),"needs_to_manifest":needs,"repo_head_when_confirmed":head,
 "demo":{"file":"demo_test.go.txt (copy to /repo/%s as zz_demo_test.go)"%r['demodir'],"race_detector":r['race']},
 "confirmed":{"suite_passes_with_change":True,"demo_fails_with_change":True,"demo_passes_without_change":True,
  "commands":["(scratch worktree of /repo HEAD; see seed_par.sh)","git apply patch.diff","go test -vet=off -count=1 ./...",
   "cd %s && go test %s -vet=off -count=1 -run TestDemo ."%(r['demodir'],race),"git checkout -- .","(same demo command on the clean tree)"]},
 "checks_that_report_it":r['caught_by'],"reports":r['reports'],"detected":bool(r['caught_by'])}
json.dump(meta,open(d+'/meta.json','w'),indent=1)
print('  -> stored; caught by',r['caught_by'] or 'NOTHING (missed)')
PY
done
