#!/usr/bin/env python3
"""Regenerates the seeded-change table of DESIGN.md (between the SEED-TABLE markers) from seeded/*/meta.json."""
import json, glob, os, re
rows = []
det = 0
for mp in sorted(glob.glob('/verif/seeded/*/meta.json')):
    m = json.load(open(mp))
    rules = []
    for prop, body in re.findall(r'(C\d\d):\[([^\]]*)\]', m.get('reports', '')):
        rs = sorted(set(x.split('/')[0] for x in body.split(';') if x.strip()))
        rules.append('%s %s' % (prop, ', '.join(rs)))
    rep = '; '.join(rules) if rules else '**missed**'
    det += bool(rules)
    needs = m.get('needs_to_manifest', '').replace('|', '/').replace('\n', ' ')
    if len(needs) > 110:
        needs = needs[:107] + '…'
    rows.append('| %s | %s | %s |' % (m['name'], needs, rep))
table = '| seeded change | needs | reported by (quick tier) |\n|---|---|---|\n' + '\n'.join(rows) + \
    '\n\n%d of %d reported.\n' % (det, len(rows))
p = '/verif/DESIGN.md'
s = open(p).read()
b, e = '<!-- SEED-TABLE-BEGIN -->', '<!-- SEED-TABLE-END -->'
if b in s:
    s = s[:s.index(b) + len(b)] + '\n' + table + s[s.index(e):]
    open(p, 'w').write(s)
    print('table updated: %d/%d' % (det, len(rows)))
else:
    print(table)
