#!/bin/bash
# Builds the checker from files on disk only (offline).
set -eu
cd "$(dirname "$0")"
export GOFLAGS=-mod=mod GOPROXY=off GOSUMDB=off GOTOOLCHAIN=local
unset GOWORK
mkdir -p .bin evidence
(cd checker && go build -o ../.bin/cmverify .)
echo "cmverify built"
