#!/bin/bash
# Re-bases stored patches (seeded/*/patch.diff, negatives/*/patch.diff) that no longer apply to /repo's HEAD
# (a later "fix:" commit touched the same lines): applies them with fuzz in a scratch worktree and, when that
# works and the tree still builds, rewrites patch.diff from the result. The change is re-confirmed afterwards by
# seed_recheck.sh / neg_recheck.sh as usual. usage: seed_rebase.sh [dir-glob ...]
set -u
export GOFLAGS=-mod=mod GOPROXY=off GOSUMDB=off GOTOOLCHAIN=local
unset GOWORK
cd /verif
WT=$(mktemp -d /tmp/rb.XXXXXX); rmdir "$WT"
git -C /repo worktree add --detach "$WT" HEAD -q || exit 2
trap 'git -C /repo worktree remove --force "$WT" >/dev/null 2>&1; rm -rf "$WT"; git -C /repo worktree prune' EXIT
for d in ${@:-seeded/*/ negatives/*/}; do
  d=${d%/}; P="/verif/$d/patch.diff"; [ -f "$P" ] || continue
  ( cd "$WT" && git checkout -q -- . && git clean -fdq
    git apply --check "$P" 2>/dev/null && exit 0
    if patch -p1 -F3 -s < "$P" >/dev/null 2>&1; then
      find . -name '*.orig' -delete; find . -name '*.rej' -delete
      if go build ./... >/dev/null 2>&1; then git add -A -N . ; git diff > "$P.new"; mv "$P.new" "$P"; echo "rebased  $d"; else echo "REBASE-BUILD-FAILS $d"; fi
    else
      find . -name '*.orig' -delete; find . -name '*.rej' -delete
      echo "CONFLICT $d"
    fi )
done
