#!/bin/bash
# usage: seed_par.sh <srcdir> [props...]
# Evaluates one seeded change WITHOUT touching /repo: makes a scratch worktree of /repo's HEAD under /tmp,
# applies <srcdir>/patch.diff, confirms (pinned suite passes with it, demo fails with it, demo passes without it),
# runs the quick checks against the scratch tree (-repo), removes the worktree. Several can run in parallel.
# <srcdir> holds patch.diff, demo_test.go (or demo_test.go.txt), notes.md (demodir:/race: lines) or meta.json.
# Prints one JSON object on the last line.
set -u
export GOFLAGS=-mod=mod GOPROXY=off GOSUMDB=off GOTOOLCHAIN=local
unset GOWORK
D="$(cd "$1" && pwd)"; shift
PROPS="${@:-C01 C02 C03 C04 C05 C06 C07 C08 C09 C10 C11 C12 C13 C14 C15 C16 C17 C18 C19 C20}"
DEMO="$D/demo_test.go"; [ -f "$DEMO" ] || DEMO="$D/demo_test.go.txt"
DEMODIR="."; RACE=""
if [ -f "$D/meta.json" ]; then
  DEMODIR=$(jq -r '.demo.file' "$D/meta.json" | sed -E 's#.*copy to /repo/([^ ]*) as.*#\1#')
  [ "$(jq -r '.demo.race_detector' "$D/meta.json")" = "true" ] && RACE="-race"
elif [ -f "$D/notes.md" ]; then
  DEMODIR=$(grep -m1 -i '^demodir:' "$D/notes.md" | sed -E 's/^[^:]*: *//; s/ *$//'); [ -z "$DEMODIR" ] && DEMODIR="."
  grep -m1 -i '^race:' "$D/notes.md" | grep -qi yes && RACE="-race"
fi
WT=$(mktemp -d /tmp/se.XXXXXX); SV=$(mktemp -d /tmp/sv.XXXXXX)
cleanup() { git -C /repo worktree remove --force "$WT" >/dev/null 2>&1; rm -rf "$WT" "$SV"; git -C /repo worktree prune; }
trap cleanup EXIT
rmdir "$WT"; git -C /repo worktree add --detach "$WT" HEAD -q || { echo '{"error":"worktree"}'; exit 2; }
cp /verif/known_findings.json "$SV/"; mkdir -p "$SV/evidence"
cd "$WT"
if ! git apply "$D/patch.diff" 2>/dev/null; then echo "{\"dir\":\"$D\",\"error\":\"patch does not apply\"}"; exit 2; fi
BUILD=0; go build ./... >/dev/null 2>&1 || BUILD=1
SUITE=$(go test -vet=off -count=1 ./... 2>&1 | grep -c -E "^(FAIL|---  *FAIL)")
cp "$DEMO" "$WT/$DEMODIR/zz_demo_test.go"
(cd "$WT/$DEMODIR" && timeout 300 go test $RACE -vet=off -count=1 -run 'TestDemo' . >"$SV/demo_mut.log" 2>&1); DEMO_MUT=$?
rm -f "$WT/$DEMODIR/zz_demo_test.go"
FIRED=""
for p in $PROPS; do
  OUT=$("${CMVERIFY:-/verif/.bin/cmverify}" -repo "$WT" -verif "$SV" -property $p -tier quick 2>&1); RC=$?
  if [ $RC -ne 0 ]; then FIRED="$FIRED $p:[$(echo "$OUT" | grep -E '^(VIOLATION|UNDECIDED):' | sed -E 's/^(VIOLATION|UNDECIDED): ([^ ]+) (.*) at .*/\2\/\3/' | cut -c1-100 | tr '\n' ';')]"; fi
done
git checkout -- . ; git clean -fdq
cp "$DEMO" "$WT/$DEMODIR/zz_demo_test.go"
(cd "$WT/$DEMODIR" && timeout 300 go test $RACE -vet=off -count=1 -run 'TestDemo' . >"$SV/demo_clean.log" 2>&1); DEMO_CLEAN=$?
rm -f "$WT/$DEMODIR/zz_demo_test.go"
[ $DEMO_CLEAN -ne 0 ] && tail -5 "$SV/demo_clean.log" >&2
python3 - "$D" "$BUILD" "$SUITE" "$DEMO_MUT" "$DEMO_CLEAN" "$RACE" "$DEMODIR" "$FIRED" <<'PY'
import json,sys,re
d,build,suite,dm,dc,race,demodir,fired=sys.argv[1:9]
caught=sorted(set(re.findall(r'(C\d\d):\[',fired)))
print(json.dumps({"dir":d,"builds":build=="0","suite_failures_with_change":int(suite),"demo_rc_with_change":int(dm),"demo_rc_clean":int(dc),
 "race":bool(race),"demodir":demodir,"confirmed":build=="0" and suite=="0" and dm!="0" and dc=="0","caught_by":caught,"reports":fired.strip()}))
PY
