#!/usr/bin/env python3
"""Summarises /tmp/mut_results.jsonl: survivors of the pinned suite, split by whether the behaviour fingerprint changed."""
import json,collections,sys
rows=[json.loads(l) for l in open('/tmp/mut_results.jsonl') if l.strip().startswith('{')]
st=collections.Counter(r['stage'] for r in rows)
print('mutants evaluated:',len(rows),dict(st))
surv=[r for r in rows if r['stage']=='survivor']
same=[r for r in surv if r['same_behaviour']]; diff=[r for r in surv if not r['same_behaviour']]
print('survivors: %d  (behaviour fingerprint unchanged: %d, changed: %d)'%(len(surv),len(same),len(diff)))
print('  unchanged & silent: %d   unchanged & ALARM: %d'%(sum(1 for r in same if not r['fired']),sum(1 for r in same if r['fired'])))
print('  changed & reported: %d   changed & missed: %d'%(sum(1 for r in diff if r['fired']),sum(1 for r in diff if not r['fired'])))
if len(sys.argv)>1:
    for r in (same if sys.argv[1]=='alarms' else diff):
        if (sys.argv[1]=='alarms' and r['fired']) or (sys.argv[1]=='missed' and not r['fired']) or sys.argv[1]=='caught' and r['fired']:
            print(r['desc'],'|',r['fired'][:200])
