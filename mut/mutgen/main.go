// mutgen writes simple syntactic mutants of the non-test Go files of a directory tree, one mutated copy of the
// file per mutant, as <out>/<n>/<relative path> plus <out>/<n>/desc.txt. It exists to test the checker, not the repo.
package main

import (
	"flag"
	"fmt"
	"go/ast"
	"go/parser"
	"go/token"
	"os"
	"path/filepath"
	"strconv"
	"strings"
)

type edit struct {
	off, end int
	repl     string
	desc     string
}

func main() {
	root := flag.String("root", "/repo", "repository")
	out := flag.String("out", "/tmp/mut", "output directory")
	flag.Parse()
	n := 0
	for _, rel := range []string{"parse.go", "blocks.go", "inlines.go", "parse_html.go", "html_renderer.go", "references.go", "walk.go", "node.go", "format/format.go"} {
		path := filepath.Join(*root, rel)
		src, err := os.ReadFile(path)
		if err != nil {
			continue
		}
		fset := token.NewFileSet()
		f, err := parser.ParseFile(fset, path, src, 0)
		if err != nil {
			panic(err)
		}
		var edits []edit
		off := func(p token.Pos) int { return fset.Position(p).Offset }
		swap := map[token.Token]token.Token{token.LSS: token.LEQ, token.LEQ: token.LSS, token.GTR: token.GEQ, token.GEQ: token.GTR,
			token.EQL: token.NEQ, token.NEQ: token.EQL, token.LAND: token.LOR, token.LOR: token.LAND, token.ADD: token.SUB, token.SUB: token.ADD}
		ast.Inspect(f, func(nd ast.Node) bool {
			switch x := nd.(type) {
			case *ast.BinaryExpr:
				if to, ok := swap[x.Op]; ok {
					// skip string concatenation
					if x.Op == token.ADD {
						if bl, ok := x.X.(*ast.BasicLit); ok && bl.Kind == token.STRING {
							return true
						}
						if bl, ok := x.Y.(*ast.BasicLit); ok && bl.Kind == token.STRING {
							return true
						}
					}
					o := off(x.OpPos)
					edits = append(edits, edit{o, o + len(x.Op.String()), to.String(), fmt.Sprintf("%s:%d: %s -> %s", rel, fset.Position(x.OpPos).Line, x.Op, to)})
				}
			case *ast.BasicLit:
				if x.Kind == token.INT {
					if v, err := strconv.ParseInt(x.Value, 0, 64); err == nil && v >= 0 && v < 1000 {
						o := off(x.Pos())
						edits = append(edits, edit{o, o + len(x.Value), strconv.FormatInt(v+1, 10), fmt.Sprintf("%s:%d: %d -> %d", rel, fset.Position(x.Pos()).Line, v, v+1)})
						if v > 0 {
							edits = append(edits, edit{o, o + len(x.Value), strconv.FormatInt(v-1, 10), fmt.Sprintf("%s:%d: %d -> %d", rel, fset.Position(x.Pos()).Line, v, v-1)})
						}
					}
				}
			case *ast.UnaryExpr:
				if x.Op == token.NOT {
					o := off(x.OpPos)
					edits = append(edits, edit{o, o + 1, "", fmt.Sprintf("%s:%d: drop !", rel, fset.Position(x.OpPos).Line)})
				}
			case *ast.BlockStmt:
				for _, st := range x.List {
					switch s := st.(type) {
					case *ast.ExprStmt, *ast.IncDecStmt:
						edits = append(edits, edit{off(s.Pos()), off(s.End()), "", fmt.Sprintf("%s:%d: delete statement", rel, fset.Position(s.Pos()).Line)})
					case *ast.AssignStmt:
						if s.Tok != token.DEFINE {
							edits = append(edits, edit{off(s.Pos()), off(s.End()), "", fmt.Sprintf("%s:%d: delete assignment", rel, fset.Position(s.Pos()).Line)})
						}
					}
				}
			case *ast.CaseClause:
				_ = x
			}
			return true
		})
		for _, e := range edits {
			n++
			d := filepath.Join(*out, strconv.Itoa(n))
			os.MkdirAll(filepath.Join(d, filepath.Dir(rel)), 0o755)
			mutated := string(src[:e.off]) + e.repl + string(src[e.end:])
			os.WriteFile(filepath.Join(d, rel), []byte(mutated), 0o644)
			os.WriteFile(filepath.Join(d, "desc.txt"), []byte(e.desc+"\n"+rel+"\n"), 0o644)
		}
	}
	fmt.Println(n, "mutants written to", *out, strings.Repeat("", 0))
}
