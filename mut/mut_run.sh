#!/bin/bash
# usage: mut_run.sh <jobs> <stride> [offset]   — evaluates every <stride>-th mutant of /tmp/mut with mut_eval.sh
set -u
J="${1:-6}"; S="${2:-3}"; O="${3:-0}"
export BASEFP=$(cat /verif/mut/baseline.fp)
export CMVERIFY=$(mktemp /tmp/cmverify.XXXXXX); cp /verif/.bin/cmverify "$CMVERIFY"; chmod +x "$CMVERIFY"; export GOCACHE=$(mktemp -d /tmp/gocache.XXXXXX); trap 'rm -f "$CMVERIFY"; rm -rf "$GOCACHE"' EXIT
ls -d /tmp/mut/*/ | sort -t/ -k4 -n | awk -v s="$S" -v o="$O" '(NR-1)%s==o' | xargs -P "$J" -I{} /verif/mut/mut_eval.sh {} >> /tmp/mut_results.jsonl
