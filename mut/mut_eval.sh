#!/bin/bash
# usage: mut_eval.sh <mutant-dir>   (a directory written by mutgen: one mutated file + desc.txt)
# Stage 1: builds and runs the pinned suite on a copy of /repo with the mutated file. Stage 2 (survivors only): computes
# the behaviour fingerprint and runs every quick check. Prints one JSON line. Used to test the checker, never a check itself.
set -u
export GOFLAGS=-mod=mod GOPROXY=off GOSUMDB=off GOTOOLCHAIN=local
unset GOWORK
M="$1"; BASEFP="${BASEFP:?baseline fingerprint}"
REL=$(sed -n 2p "$M/desc.txt"); DESC=$(sed -n 1p "$M/desc.txt")
W=$(mktemp -d /tmp/mw.XXXXXX); SV=$(mktemp -d /tmp/mv.XXXXXX)
trap 'rm -rf "$W" "$SV"' EXIT
cp -r /repo/. "$W/"; rm -rf "$W/.git"; cp "$M/$REL" "$W/$REL"
cd "$W"
if ! go build ./... >/dev/null 2>&1; then echo "{\"m\":\"$M\",\"stage\":\"nobuild\"}"; exit 0; fi
if ! timeout 25 go test -vet=off -count=1 ./... >/dev/null 2>&1; then echo "{\"m\":\"$M\",\"stage\":\"killed\"}"; exit 0; fi
cp /verif/mut/zz_diffhash_test.go.txt "$W/zz_diffhash_test.go"
FP=$(timeout 300 go test -vet=off -count=1 -v -run TestDiffHash . 2>/dev/null | grep FINGERPRINT | awk '{print $2}')
rm -f "$W/zz_diffhash_test.go"
cp /verif/known_findings.json "$SV/"; mkdir -p "$SV/evidence"
FIRED=""
for p in C01 C02 C03 C04 C05 C06 C07 C08 C09 C10 C11 C12 C13 C14 C15 C16 C17 C18 C19 C20; do
  OUT=$("${CMVERIFY:-/verif/.bin/cmverify}" -repo "$W" -verif "$SV" -property $p -tier quick 2>&1); RC=$?
  if [ $RC -ne 0 ]; then FIRED="$FIRED $p:$(echo "$OUT" | grep -E '^(VIOLATION|UNDECIDED):' | sed -E 's/^(VIOLATION|UNDECIDED): ([^ ]+) ([^ ]+).*/\2\/\3/' | tr '\n' ',' | cut -c1-160)"; fi
done
SAME=false; [ "$FP" = "$BASEFP" ] && SAME=true
python3 - "$M" "$DESC" "$SAME" "$FIRED" <<'PY'
import json,sys
m,desc,same,fired=sys.argv[1:5]
print(json.dumps({"m":m,"stage":"survivor","desc":desc,"same_behaviour":same=="true","fired":fired.strip()}))
PY
