#!/usr/bin/env python3
"""Regenerates MANIFEST.json from the table below (kept in one place so the manifest stays valid)."""
import json

NA = {
    "C03": "byte coverage by leaves is a sum over data-dependent span endpoints and line jumps; no shape-level necessary condition that the pinned suite does not already kill (DESIGN.md §3 C03)",
    "C06": "CommonMark conformance is an input-text→output-text relation through the whole block and inline algorithms; only an executable reference could judge it, which is a different technique (DESIGN.md §3 C06)",
    "C13": "per-construct span shape is pure offset arithmetic per construct (see C02) (DESIGN.md §3 C13)",
}

# id -> (claimed?, technique, level text, level note)
CHECKS = {
    "C01": (True, "SSA constructor-agreement, aliasing/provenance, cursor-pairing and buffer-ownership rules (CTOR, CLAMP, RET-SELF, ALIAS, CURSOR-PAIR, PROV through helper parameters, BUF-FORWARD, PAD-START, LINE-COMPLETE, LINECOUNT-STEP, WS-SPEC)",
            "Necessary structural conditions of lossless tiling: the in-memory constructor initialises the same machine as the streaming one, Source aliases the caller's buffer through a capacity-clamped slice, every prefix cut of the buffer is paired with offset/line/index updates, offset/line addends derive from unpaddedNullLength/lineCount of the prefix cut (also through helper parameters), the buffer only moves forward or to a fresh allocation (so returned Source slices are never overwritten), padNulls examines only newly read bytes, lineCount's per-byte step (or closed form) counts LF, CR and CRLF once each, a line is complete only behind an LF, an available look-ahead byte or end of input, and no Unicode-white-space function is applied to document text. Does not decide range ordering or the arithmetic inside the helpers.",
            "go/types + go/ssa; field-based origin abstraction; helper arithmetic trusted"),
    "C02": (True, "SSA provenance rule on the root-block cut (ROOT-CUT), completeness/delta rules on the re-basing of carried-over blocks (REBASE, with BSET path-conditioning on node kinds), finite-domain reachability of multi-byte advances (CHAR-ADVANCE), value-flow rule on len(source) (SPAN-LEN), must-pass-through rule for the line cursor after multi-line scanners (RESYNC)",
            "Five necessary conditions: a root block's Source is cut exactly at the end of the span of the block it carries (so the root span ends at len(Source)); blocks carried over to the next call have the Start and End of every block and inline span shifted, for nodes of every kind, by minus the length that was cut; a position that reaches a span boundary is advanced by a constant of two or more only over bytes known to be ASCII (character boundaries); the length of the whole root source never becomes a boundary of an inline span (nesting); after a scanner that may stop on a later line the line cursor is stored before the tokenizer moves on (no overlapping siblings). Validity, nesting, sibling order and character alignment of all other spans are arithmetic over loop-computed offsets and are not decided.",
            "go/ssa def-use; access paths compared structurally (go/ssa has no CSE)"),
    "C04": (True, "SSA latch/provenance proof that Parse's panic is unreachable (interprocedural latch dataflow), definite-divergence and reader-exit loop rules, relative-advance and index-guard rules (byte slices and strings), NUL replacement phase range (NUL-RANGE), finite-domain unreachability, lineParser typestate, child-arity backing",
            "Structural parts of totality: Parse cannot reach panic(err) (latch + provenance), errors returned by Render/Format/NextBlock originate from the reader/writer, no loop has a state-preserving cycle (LOOP-D) or an end-of-input-blind reader cycle (LOOP-N), hand-advanced scan indices only move relative to themselves (ADVANCE-REL), cursor and look-ahead reads of byte slices and strings are dominated by a bound on that index (INDEX-GUARD), the field indexing the NUL replacement string stays inside it on every reader step (NUL-RANGE), explicit unreachable-defaults are unreachable over finite domains, lineParser API state guards cannot fire from any block rule, positional child accesses are backed by producer guarantees. Implicit bounds/nil panics and progress-making loop termination are not decided.",
            "go/ssa CFG and dominators; BSET finite-domain propagation; idempotent reader methods list"),
    "C05": (True, "BSET containment matrix, constant-kind open-call audit, marker-first path rule, construction-sequence enumeration against the documented child grammar (through constructor helpers), leaf-kind path conditioning, link-deactivation, unparsed-reuse / unparsed-scan and list-tightness agreement rules",
            "Structural parts of the node grammar: lists contain only items and items occur only in lists, every item starts with a marker, reference definitions/links/images/autolinks are built with the documented child sequences on every construction path, leaf blocks receive only their verbatim leaf kinds (every leaf addLineText creates, per container kind), list/item delimiter agreement, items receive the list's own tightness on every iteration (LOOSE-AGREE); necessary conditions of 'no link in link' (every earlier opener below the finished link is deactivated, for all flag values) and of 'no unparsed node remains' (a line-list node is attached only where it cannot be Unparsed; Rewrite's pending-text test answers true for any child of kind Unparsed, whatever else holds). The full delimiter-stack dependent clauses and numeric accessor ranges are not decided.",
            "go/ssa; grammar tables transcribed from the kinds' doc comments"),
    "C07": (True, "HTML lexer-state typestate + escape taint over every append to the render buffer (HTX-L, HTX-T, HTX-RAW, ESC-SET per byte value, VOCAB, CHARREF-ALPHABET, WALK-WIRING)",
            "Every byte appended to the output buffer is part of a constant skeleton the HTML lexer accepts as quoted start/end tags with constant names, or dynamic text that passed a sanitiser adequate for its lexical context, or one of two verbatim leaf kinds (the character-reference recogniser's alphabet is decided, the soft-break span is assumed); the Walk callbacks pass the emitters' verdicts on unchanged, so every opened element is closed. Holds for all inputs and configurations because the state set carries all configurations.",
            "html.EscapeString and escapeHTML's copy arithmetic trusted as sanitisers; parser invariants on character-reference and soft-break spans assumed"),
    "C08": (True, "SSA dominance rules on the reader loop: error latch (interprocedural), no read after error, sticky error, read count and error kept, line completeness, search start, buffer ownership, padding start, same machine, two-pass order",
            "Necessary conditions of streaming≡in-memory: the reader is never consulted after it reported an error/EOF, the stored error is never replaced and is what NextBlock returns, bytes and errors returned together are both kept, a line is complete only behind LF / look-ahead / end of input, the line-ending search never starts behind a pending CR, the buffer never moves back into memory of returned blocks, padNulls looks only at new bytes, Parse uses NextBlock as its only splitter with the same line-counter initialisation, Extract precedes Rewrite. Tree equality under arbitrary chunking is arithmetic over buffer contents and is not decided.",
            "go/ssa dominators; helper arithmetic trusted"),
    "C09": (True, "path rule on the window of the line-jumping reader relative to the line cursor (READER-WINDOW), provenance rule on the start of a paragraph's remainder after link reference definitions (PARA-REST-START), who-compares rule on raw reader distances (READER-DIST)",
            "Three necessary conditions about reading inline text through container prefixes ('> ', list indentation): a reader over the remaining lines built at a scanner-returned position takes its window before the line cursor moves to the scanner's end (otherwise earlier lines of a multi-line destination/title are collected raw, prefixes included); what remains of a paragraph after link reference definitions starts at the reader's position, not at a raw end-of-line offset; no length limit is applied to a raw distance between reader positions. That the block phase strips the same prefix from every line, and the metamorphic relation itself, are behavioural and not decided.",
            "go/ssa CFG paths and def-use; resync summaries of callees"),
    "C10": (True, "per-kind outcome tables of the renderer callbacks (HTX-KIND/PAIR) against the documented mapping, text provenance, write-effect analysis of the read path, block-join provenance",
            "Structural parts of canonical serialisation: for every node kind and configuration the sequence of tags/constants/dynamic classes emitted equals the documented mapping and pre/post are paired; dynamic text comes from the visited node's accessors and is escaped; rendering writes only call-local memory and has no nondeterminism source; Render joins AppendBlock results with the blank-line separator in slice order. Byte-for-byte equality with an independent serialiser is not decided.",
            "oracle tables transcribed from doc comments and the CommonMark HTML mapping; EFF external-callee table"),
    "C11": (True, "exact finite-domain equivalence check of the opener-search cache key against the match predicate (EMPH-KX) an invariant dataflow for saved-index staleness (EMPH-S), exact flanking truth table and match predicate against the specification (EMPH-FLANK, EMPH-P), neighbour-fetch conditions by enumeration of length orderings (EMPH-EDGE)",
            "The flanking clause (classifier sets, the 2x3x3 truth table, neighbours decoded exactly when they exist and from exactly source[:Start] / source[End:], stand-ins are whitespace) and the multiple-of-3 clause (match predicate equals rules 9/10) are decided exactly; plus two necessary conditions for the openers_bottom optimisation to be behaviour-preserving: closers that share a search-bound slot are treated identically by the match predicate for every opener (exhaustive over type x tested flag bits x run length mod 3), and the invariant 'every saved bound <= V' is maintained across every deletion from the stack before any bound is read. The algorithm's result itself is value-level and not decided.",
            "go/ssa; both functions are evaluated over the finite domain on the SSA graph after checking run lengths are only used modulo 3"),
    "C12": (True, "SSA dominance/provenance rules: first-wins guard, match-before-reference, single normaliser, two-pass order, document-order traversal; label bytes only through the NUL-mapping reader (NORM-READER) whose replacement phase is an inductive invariant checked per step over a finite abstraction (NULVIEW)",
            "Structural parts: Extract never overwrites an existing key, every node made a reference is dominated by a successful MatchReference of the same key, every stored key/ref is produced by the one normaliser, definitions are extracted before inlines are rewritten, containers are descended in document order, label bytes reach the normaliser only through the reader that presents NUL padding as U+FFFD, and that reader keeps the replacement phase right on every step (so keys are UTF-8 and a NUL matches U+FFFD). The normaliser's own Unicode semantics and label recognition are not decided.",
            "go/ssa dominators and def-use"),
    "C14": (True, "typed-AST decision symmetry rule for LF/CR (SYM, byte tests and string needles) with two structurally recognised exemptions, arm-shadowing enumeration (SYM-DEAD), loop-state rule for per-byte line-ending counting (LE-COUNT), length pre-filter thresholds against the shortest instance of each block construct (MINLEN)",
            "Necessary conditions of line-ending and final-newline independence: per-byte line-ending state in a loop is CRLF-aware (LE-COUNT); no length pre-filter rejects the shortest instance of a block construct, which only occurs without a final line ending (MINLEN); every decision in package commonmark that classifies an input byte against LF classifies the same operand against CR (directly or via a predicate whose BSET accept set has both), except CRLF look-ahead and IndexAny-derived indices. Equivalence of the two arms, padding and final-newline clauses are not decided.",
            "go/types typed syntax; BSET accept sets of helper predicates"),
    "C15": (True, "exact accept sets of byte/rune classifiers by finite-domain set propagation over SSA (BSET), compared with sets transcribed from CommonMark 0.30 / RFC 3986; numeric limits of the recognisers (SPEC-BOUNDS, loop counters by iteration count); full-span scans (SPAN-SCAN); white-space scope rules incl. ordered comparisons that lump control bytes with the space (WS-SPEC); length pre-filter thresholds (MINLEN)",
            "For each of the 9 byte/rune classifiers and 2 byte maps the exact accept set / mapping over all 256 bytes resp. all 1,114,112 code points equals the spec's definition; NormalizeURI's constant safe set is within RFC 3986 reserved ∪ unreserved and every byte it writes is '%', a urlHexDigit result or a rune guarded by the safe-set test. The numeric limits of the recognisers equal the specification's numbers and span-validating loops cover the whole span; the recognisers' languages, the e-mail recogniser and URI idempotence are loop automata and are not decided.",
            "go/ssa; Unicode tables of the Go standard library; oracle sets transcribed in checker/c15.go"),
    "C16": (True, "inductive phase invariant of the NUL-mapping reader (NULVIEW) and who-may-store rules: no store into InlineParser fields after construction (INLINE-STATELESS), inline-phase working types are scratch in the write-effect analysis and line-parser pointers never leave locals (PHASE-SCRATCH)",
            "Necessary conditions only: text scanned before the NUL padding is filled in reads the same as after (the reader presents padding as U+FFFD in phase), and no hidden state survives a root-block boundary — the inline parser remembers nothing between Rewrite calls and the per-line / per-paragraph working state never outlives the call that made it, so what a block is parsed with is its own text, the reference matcher and the BlockParser's cursor fields. That closing a block at end of input equals closing it because of the next line (per block rule) is behavioural and not decided.",
            "EFF scratch-type computation; go/ssa stores"),
    "C17": (True, "who-may-emit-markup rule over all appends (HTX-EMIT), filterRaw provenance over its helper family, transition-table extraction of its skip states (FR-AUTOMATON), tag-open set and first-'>' jump target (FR-TAGSKIP), tag-name terminator set (TAGNAME-SET), lower-casing, transient-name and nil-filter rules, BSET superset check of the GFM predicate",
            "Emitter-side clauses: every tag the renderer itself writes goes through the FilterTag-consulting emitters, filterRaw appends only sub-slices of its input or the constant &lt;, FilterTag arguments are lower-cased names, FilterTagGFM rejects at least the nine GFM raw-text elements, no filtering branch is taken with a nil predicate, and filterRaw's scanner never skips further than an HTML tokenizer would: skip states end at the tokenizer's construct ends, a jump over a tag starts only at a byte that opens markup and lands on the first '>', the measured tag name stops at every tokenizer terminator, and the lower-cased name is never kept. Equality of the two languages beyond that is not decided.",
            "go/ssa; atom table of golang.org/x/net/html/atom read as data"),
    "C18": (True, "eight SSA shape obligations on commonmark.Walk (W1–W8): child-function indirection, prune/abort edges, cursor coherence, post-frame ordering, traversal order",
            "Structural obligations each of which is necessary for the documented Walk contract: custom child functions used everywhere, prune path pushes nothing, abort path returns without further calls, child cursors carry the parent/index/nearest block used to fetch them, root cursor has index −1 and no parent, the post frame is pushed below the children, children are pushed in descending index and popped from the end. That these add up to exactly-once document order is an inductive argument not decided here.",
            "go/ssa form of Walk"),
    "C19": (True, "whole-module write-effect / ownership analysis over SSA with a field-based heap abstraction (EFF-G, EFF-R, EFF-X, DET) and a tag-discipline rule for the unsafe node pointers (EFF-U)",
            "No instruction outside package initialisers writes package-level state; every write reachable from Render/AppendBlock/RenderHTML/Format/Walk and the exported accessors targets call-owned memory (fresh allocations, scratch-typed per-call state, the documented output parameter); external callees are stateless per table; no goroutine, channel, select, unsafe beyond tag-guarded node pointers, or order-observable map iteration. Covers all interleavings at once because no shared writable location exists.",
            "Go memory/type safety; external callee table (DESIGN.md Appendix C); user callbacks are the caller's"),
    "C20": (True, "interprocedural SSA latch dataflow with bool-correlated method summaries, write-guard and who-may-write rules on the format writer, result provenance, write-effect analysis; reader/writer table agreement between the parser's markup bytes and the formatter's escape decisions by finite-domain branch evaluation (FMT-ESC)",
            "Structural parts of the first sentence: the error field is a latch, every call reaching the underlying writer is guarded by it and stores its error, only the writer's own methods touch the underlying writer, Format returns the latched error, formatting writes only call-local memory and has no nondeterminism source. Of the round-trip sentence one necessary condition is decided: every ASCII punctuation byte the parser's inline tokenizer or block-start recognisers compare input with can be written with a backslash in front of it by the formatter's text loop (reachability only, not the conditions). The round trip itself is behavioural and not decided.",
            "go/ssa dominators; EFF external-callee table"),
}

UNDER_CONSTRUCTION = "check under construction in this session: not claimed until its rules run clean on the unchanged tree (planned, see DESIGN.md §3)"

def main():
    checks = []
    na = [{"property_id": k, "reason": v} for k, v in sorted(NA.items())]
    for pid, (claimed, tech, text, note) in sorted(CHECKS.items()):
        if not claimed:
            na.append({"property_id": pid, "reason": UNDER_CONSTRUCTION})
            continue
        checks.append({
            "property_id": pid,
            "quick_cmd": f"./run.sh {pid} quick",
            "thorough_cmd": f"./run.sh {pid} thorough",
            "evidence_file": f"/verif/evidence/{pid}.json",
            "replay_cmd_template": f"./run.sh {pid} quick -only \"$(jq -r '.rule+\"/\"+.construct' {{path}})\"",
            "engine": "cmverify",
            "level_claimed": {"category": "other", "text": text, "design_ref": f"DESIGN.md §3 {pid}"},
            "level_note": note,
            "technique": "static analysis: " + tech,
        })
    na.sort(key=lambda x: x["property_id"])
    m = {
        "version": 1,
        "setup_cmd": "./setup.sh",
        "hooks": {
            "guard": "verif",
            "enable": "no hooks: static analysis reads unexported code directly; checks load /repo with and without -tags=verif (thorough) and the results must agree",
            "baseline_off_cmd": "cd /repo && GOFLAGS=-mod=mod GOPROXY=off go test -vet=off -count=1 ./...",
            "source_commits": [],
            "add_only": True,
        },
        "engines": [{
            "name": "cmverify",
            "path": "/verif/checker",
            "serves_properties": [c["property_id"] for c in checks],
            "kind_free_text": "repository-specific static analyser over go/packages typed syntax, go/ssa, dominators and a VTA call graph of /repo's working tree (golang.org/x/tools v0.29.0); nothing under /repo is executed",
        }],
        "checks": checks,
        "not_applicable": na,
        "notes": "All claimed properties are decided by static analysis only, at level 'other': each check decides the structural clauses listed in its level text and DESIGN.md, not the whole behavioural property. known_findings.json lists repaired defects (fixed:) and recorded findings.",
    }
    json.dump(m, open("/verif/MANIFEST.json", "w"), indent=1)
    print("claimed:", [c["property_id"] for c in checks])

main()
