#!/bin/bash
# Runs every stored behaviour-preserving change (negatives/*/patch.diff, written by independent sub-agents and
# differential-tested by them) through all quick checks in scratch worktrees; any ALARM line is a false alarm.
cd /verif && ./setup.sh >/dev/null || exit 2
# snapshot of the checker binary: a rebuild while this runs must not change what is evaluated
export CMVERIFY=$(mktemp /tmp/cmverify.XXXXXX); cp .bin/cmverify "$CMVERIFY"; chmod +x "$CMVERIFY"; # a build cache of its own, removed at the end: hundreds of scratch worktree builds grow the shared cache by tens of GB
export GOCACHE=$(mktemp -d /tmp/gocache.XXXXXX)
trap 'rm -f "$CMVERIFY"; rm -rf "$GOCACHE"' EXIT
ls -d negatives/*/ | xargs -P "${1:-8}" -I{} sh -c './neg_eval.sh {} 2>/dev/null | cut -c1-700' | sort
