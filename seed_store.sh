#!/bin/bash
# usage: seed_store.sh <name> <srcdir> <demodir> <property> <needs text>
# Confirms a seeded change in /repo (suite passes, demo fails with it, passes without) and stores it under /verif/seeded/<name>.
set -u
NAME="$1"; SRC="$2"; DEMODIR="$3"; PROP="$4"; NEEDS="$5"
OUT=$(/verif/seed_eval.sh "$SRC" "$DEMODIR")
echo "$OUT" | tail -2
S=$(echo "$OUT" | grep -o 'suite_failures_with_mutant=[0-9]*' | cut -d= -f2)
DM=$(echo "$OUT" | grep -o 'demo_with_mutant_rc=[0-9]*' | cut -d= -f2)
DC=$(echo "$OUT" | grep -o 'demo_clean_rc=[0-9]*' | cut -d= -f2)
RACE=$(echo "$OUT" | grep -o 'race=.*' | cut -d= -f2)
FIRED=$(echo "$OUT" | grep '^fired:' | sed 's/^fired: *//')
if [ "$S" != "0" ] || [ "$DM" = "0" ] || [ "$DC" != "0" ]; then echo "NOT CONFIRMED: $NAME"; exit 1; fi
mkdir -p /verif/seeded/$NAME
cp "$SRC/patch.diff" /verif/seeded/$NAME/patch.diff
cp "$SRC/demo_test.go" /verif/seeded/$NAME/demo_test.go.txt
[ -f "$SRC/notes.md" ] && cp "$SRC/notes.md" /verif/seeded/$NAME/notes.md
python3 - "$NAME" "$PROP" "$NEEDS" "$DEMODIR" "$RACE" "$FIRED" <<'PY'
import json,sys,subprocess
name,prop,needs,demodir,race,fired=sys.argv[1:7]
head=subprocess.check_output(['git','-C','/repo','rev-parse','--short','HEAD']).decode().strip()
caught=[x.split(':')[0] for x in fired.split() if ':' in x and x[0]=='C']
meta={"name":name,"breaks_property":prop,"needs_to_manifest":needs,
 "repo_head_when_confirmed":head,
 "demo":{"file":"demo_test.go.txt (copy to /repo/%s as zz_demo_test.go)"%demodir,"race_detector":bool(race)},
 "confirmed":{"suite_passes_with_change":True,"demo_fails_with_change":True,"demo_passes_without_change":True,
   "commands":["git -C /repo apply patch.diff","cd /repo && go test -vet=off -count=1 ./...","cd /repo/%s && go test %s -vet=off -count=1 -run TestDemo ."%(demodir,race),"git -C /repo checkout -- .","(same demo command on the clean tree)"]},
 "checks_that_report_it":sorted(set(caught)),"reports":fired,
 "detected":bool(caught)}
json.dump(meta,open('/verif/seeded/%s/meta.json'%name,'w'),indent=1)
print(name,"stored; caught by",sorted(set(caught)))
PY
