#!/bin/bash
# usage: eq_eval.sh <out-dir-with-numbered-subdirs> <tag>   — evaluates tiny equivalent rewrites, stores them under negatives/
cd /verif
SRC="$1"; TAG="$2"
for k in "$SRC"/*/; do
  [ -f "$k/patch.diff" ] || continue
  n=$(grep -m1 -i '^name:' "$k/notes.md" 2>/dev/null | sed -E 's/^[^:]*: *//; s/[^A-Za-z0-9_-]+/-/g')
  [ -z "$n" ] && n="edit-$(basename $k)"
  t="negatives/eq-$TAG-$n"; mkdir -p "$t"; cp "$k/patch.diff" "$t/"; [ -f "$k/notes.md" ] && cp "$k/notes.md" "$t/"
done
ls -d negatives/eq-$TAG-*/ | xargs -P 10 -I{} sh -c './neg_eval.sh {} 2>/dev/null | cut -c1-900'
